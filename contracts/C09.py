"""C09 Declared parameter frequencies cover the true spectrum.

Contract on each parametrized gate:  for parameter k, every exponent difference of exp(i*theta_k) occurring in the real
matrix (exact Laurent normal form, all other parameters symbolic) lies in {0} u +-declared_frequencies(k).
Because <psi|U^dagger O U|psi> is bilinear in the entries of U and conj(U), and the surrounding circuit mixes entries
linearly, the exponent differences are a superset of the frequencies of every expectation value.
"""
import itertools
import math
import random
from fractions import Fraction

import numpy as np
import pennylane as qp

from vf.common import Plan, Obligation, Outcome, DISCHARGED, REFUTED, UNDECIDED
from vf.symx.ring import UNIT, Unsupported
from vf.symx.scalar import sym, poly_matrix
from contracts.C02 import FIXED, where_compute_matrix
from refs import gates as G

PN = ["a", "b", "c"]


def instances(tier):
    out = []
    for name in FIXED:
        npar, nw, _ = G.REF[name]
        if npar:
            cls = getattr(qp, name)
            out.append((name, cls, npar, lambda ps, cls=cls, nw=nw: cls(*ps, wires=list(range(nw))), True))
    for n in range(1, 4):
        out.append((f"MultiRZ[n={n}]", qp.MultiRZ, 1, lambda ps, n=n: qp.MultiRZ(ps[0], wires=list(range(n))), False))
    for n in (1, 2) if tier == "quick" else (1, 2, 3):
        for w in map("".join, itertools.product("IXYZ", repeat=n)):
            out.append((f"PauliRot[{w}]", qp.PauliRot, 1, lambda ps, w=w: qp.PauliRot(ps[0], w, wires=list(range(len(w)))), False))
    for n in (1, 2):
        for d in range(0, 2 ** n + 1):
            out.append((f"PCPhase[n={n},dim={d}]", qp.PCPhase, 1,
                        lambda ps, d=d, n=n: qp.PCPhase(ps[0], d, wires=list(range(n))), False))
    # controlled versions through qp.ctrl (legacy Controlled and ControlledOp2 compute their frequencies from the base generator)
    for name in FIXED:
        npar, nw, _ = G.REF[name]
        if npar == 1 and nw <= 2:
            cls = getattr(qp, name)
            for cv in ([1], [0]):
                out.append((f"ctrl({name},cv={cv[0]})", cls, 1,
                            lambda ps, cls=cls, nw=nw, cv=cv: qp.ctrl(cls(ps[0], wires=list(range(nw))), control=[nw], control_values=cv), False))
    out.append(("GlobalPhase", qp.GlobalPhase, 1, lambda ps: qp.GlobalPhase(ps[0]), False))
    out.append(("CPhase", qp.CPhase, 1, lambda ps: qp.CPhase(ps[0], wires=[0, 1]), True))
    return out


def declared(op):
    try:
        return [tuple(float(x) for x in f) for f in qp.gradients.parameter_frequencies(op)]
    except qp.exceptions.ParameterFrequenciesUndefinedError:
        return None


def build(tier, seed):
    plan = Plan("C09", level="proof")
    plan.explanation = ("Exponent differences of exp(i*theta_k) in the exact Laurent normal form of the real gate matrix are a "
                        "superset of the frequencies of any expectation value; they must lie within the declared frequencies.")
    plan.trusted_base = ["vf/symx exact ring + Sym scalar", "lemma: expectation values are bilinear in entries of U and conj(U)"]
    plan.assumptions = ["A-float-as-real", "A-float-constants", "numpy interface, non-batched path"]
    plan.unverified = ["templates and operators without a closed-form matrix kernel", "qp.gradients.parameter_frequencies "
                       "dispatch for composite operators", "eigvals_to_frequencies (planned E1 contract)",
                       "exactness of the shift rules beyond float tolerance and for spectra no C09 gate declares (bounded stand-in only); "
                       "param_shift's use of the rule on tapes"]
    plan.size_bounds = ["MultiRZ wires <= 3", "PauliRot word length <= 2 (quick) / 3 (thorough)", "PCPhase wires <= 2"]
    undefined = []
    for name, cls, npar, mk, fixed in instances(tier):
        twin = mk([0.3 + 0.1 * i for i in range(npar)])
        decl = declared(twin)
        if decl is None:
            undefined.append(name)
            continue
        func = where_compute_matrix(cls)
        plan.fn_under_contract(*func)
        for k in range(npar):
            plan.add(Obligation(f"C09/{name}/param{k}/post:exponent-differences<=declared", "post",
                                lambda mk=mk, npar=npar, k=k, decl=decl[k], name=name: _check(mk, npar, k, decl, name, seed),
                                func=func, size_bounded=not fixed, timeout=300,
                                replay=lambda w, mk=mk, npar=npar, k=k: _replay(mk, npar, k, w),
                                sample=f"declared {decl[k]} covers exponent differences of parameter {k}"))
    plan.notes["frequencies_undefined_no_claim"] = undefined
    add_shift_rule_obligations(plan, tier, seed)
    return plan


# ======================================================================================================================================
# "Consequently, a parameter-shift rule built from those frequencies is exact for that gate": gradients/general_shift_rules.py
#
# A rule (c_i, s_i) differentiates every trigonometric polynomial with frequencies in W exactly, at every point, iff
#       sum_i c_i * exp(i*w*s_i) == (i*w)**order      for every w in W u {0}            (apply the rule to x -> exp(i*w*x))
# The coefficients come out of float formulas / a float linear solve, so this is a BOUNDED stand-in: the real generate_shift_rule /
# _get_shift_rule are called natively on every frequency tuple the C09 gate instances declare, with the default shifts and with seeded
# custom shifts, and the defect of the identity above must be below 1e-8.
GSR = "pennylane/gradients/general_shift_rules.py"
SHIFT_TOL = 1e-8


def rule_defect(rule, freqs, order=1):
    rule = np.asarray(rule, dtype=float)
    c_, s_ = rule[:, 0], rule[:, 1]
    worst, at = 0.0, None
    for w in (0.0,) + tuple(float(f) for f in freqs):
        d = abs(np.sum(c_ * np.exp(1j * w * s_)) - (1j * w) ** order) / max(1.0, abs(w) ** order)
        if d > worst:
            worst, at = float(d), w
    return worst, at


def custom_shifts(freqs, j, seed):
    """seeded, pairwise well separated shifts for which the linear system of the rule is well conditioned (chosen with this file's own
    sine matrix, not the code's)"""
    rng = random.Random(1000003 * seed + 7919 * j + int(1000 * sum(freqs)))
    n = len(freqs)
    for _ in range(2000):
        s = sorted(rng.uniform(0.15, 3.0) for _ in range(n))
        if any(b - a < 0.25 for a, b in zip(s, s[1:])):
            continue
        if abs(np.linalg.det(np.sin(np.outer(s, freqs)))) > 0.05:
            return tuple(round(x, 6) for x in s)
    raise RuntimeError("no well-conditioned shift set found")


def add_shift_rule_obligations(plan, tier, seed):
    from pennylane.gradients.general_shift_rules import generate_shift_rule, _get_shift_rule
    tuples = {}
    for name, cls, npar, mk, fixed in instances(tier):
        decl = declared(mk([0.3 + 0.1 * i for i in range(npar)]))
        for k, f in enumerate(decl or []):
            t = tuple(sorted(float(x) for x in f if x > 0))
            if t:
                tuples.setdefault(t, []).append(f"{name}/param{k}")
    plan.notes["shift_rule_frequency_tuples"] = {str(t): len(v) for t, v in sorted(tuples.items())}
    plan.fn_under_contract(GSR, "generate_shift_rule")
    plan.fn_under_contract(GSR, "_get_shift_rule")
    plan.fn_under_contract(GSR, "process_shifts")

    def make(fname, call, freqs, shifts, order, label):
        def run(w=None):
            try:
                rule = call(freqs, shifts, order)
            except Exception as ex:  # pylint: disable=broad-except
                return None, f"raised {type(ex).__name__}: {ex}"
            return rule, None

        def replay(w=None):
            rule, err = run()
            if err:
                return dict(confirmed=True, observed=err, frequencies=list(freqs), shifts=None if shifts is None else list(shifts), order=order)
            d, at = rule_defect(rule, freqs, order)
            return dict(confirmed=bool(d > SHIFT_TOL), relative_defect=d, at_frequency=at, frequencies=list(freqs),
                        shifts=None if shifts is None else list(shifts), order=order, rule=np.asarray(rule, dtype=float).tolist())

        def fn():
            rp = replay()
            if rp["confirmed"]:
                return Outcome(REFUTED, "float-standin", f"sum_i c_i exp(i w s_i) != (i w)^{order} at w = {rp.get('at_frequency')}: "
                               f"relative defect {rp.get('relative_defect')}", witness=dict(frequencies=list(freqs), shifts=rp["shifts"], order=order),
                               replay=rp)
            return Outcome(DISCHARGED, f"float-standin(bounded: tol {SHIFT_TOL})", f"relative defect {rp['relative_defect']:.2e} over w in {{0}} u {list(freqs)}")
        return Obligation(f"C09/shift-rule:{fname}/freqs{list(freqs)}/{label}".replace(" ", ""), "post", fn, func=(GSR, fname), bounded=True,
                          replay=replay, timeout=120,
                          sample="the returned rule differentiates exp(i*w*x) exactly (tolerance 1e-8) for every declared frequency w and w = 0")

    for freqs in sorted(tuples):
        gen = lambda f, s, o: generate_shift_rule(f, shifts=s, order=o)
        raw = lambda f, s, o: _get_shift_rule(f, shifts=s)
        plan.add(make("generate_shift_rule", gen, freqs, None, 1, "default-shifts"))
        plan.add(make("generate_shift_rule", gen, freqs, None, 2, "default-shifts-second-order"))
        plan.add(make("_get_shift_rule", raw, freqs, None, 1, "default-shifts"))
        for j in range(3):
            sh = custom_shifts(freqs, j, seed)
            plan.add(make("generate_shift_rule", gen, freqs, sh, 1, f"custom-shifts-{j}"))
            plan.add(make("_get_shift_rule", raw, freqs, sh, 1, f"custom-shifts-{j}"))
    plan.size_bounds.append("shift rules: the frequency tuples declared by the C09 gate instances " + str(sorted(tuples)) +
                            "; default shifts, second order with default shifts, three seeded custom shift sets each (bounded stand-in, tol 1e-8)")


def _check(mk, npar, k, decl, name, seed):
    S = [sym(PN[i]) for i in range(npar)]
    try:
        op = mk(S)
        n = len(op.wires) or 1
        M = poly_matrix(qp.matrix(op, wire_order=list(op.wires) or [0]))
    except Unsupported as ex:
        return Outcome(UNDECIDED, "trace", f"trace left the fragment: {ex}")
    pname = PN[k]
    exps = set()
    for x in M.flat:
        for key in x.t:
            e = 0
            for g, p in key:
                if g[0] == "p" and g[1] == pname:
                    return Outcome(UNDECIDED, "laurent-normal-form", f"parameter {pname} occurs polynomially: not a trigonometric polynomial")
                if g[0] == "e":
                    if any(nm == pname for nm, _ in g[1]):
                        if g[1] != ((pname, 1),):
                            return Outcome(UNDECIDED, "laurent-normal-form", "parameter occurs in a mixed monomial")
                        e += p
            exps.add(e)
    diffs = sorted({Fraction(abs(a - b), UNIT) for a in exps for b in exps})
    allowed = {Fraction(0)} | {Fraction(f).limit_denominator(10 ** 6) for f in decl}
    extra = [d for d in diffs if d not in allowed]
    if not extra:
        return Outcome(DISCHARGED, "laurent-normal-form",
                       f"exponents {sorted(Fraction(e, UNIT) for e in exps)} -> differences {diffs} within declared {sorted(allowed)}")
    # the superset contains an undeclared frequency: a violation needs a concrete expectation value showing it
    rng = random.Random(seed * 7919 + hash(name) % 1000)
    for trial in range(12):
        w = dict(freq=float(extra[-1 if trial % 2 == 0 else 0]), seed=rng.randint(0, 10 ** 9))
        rp = _replay(mk, npar, k, w)
        if rp["confirmed"]:
            return Outcome(REFUTED, "laurent-normal-form+dft", f"undeclared frequencies {extra} (declared {sorted(allowed)})",
                           witness=w, replay=rp)
    return Outcome(UNDECIDED, "laurent-normal-form", f"exponent-difference superset contains {extra}, not among declared "
                   f"{sorted(allowed)}, but no expectation value exhibiting it was found")


def _replay(mk, npar, k, w):
    """Fourier coefficient at the undeclared frequency of f(t) = <psi|U(t)^dagger O U(t)|psi> on the REAL operator."""
    rng = np.random.default_rng(w["seed"])
    others = rng.uniform(-3, 3, size=npar)
    op0 = mk(list(others))
    wires = list(op0.wires) or [0]
    d = 2 ** len(wires)
    psi = rng.normal(size=d) + 1j * rng.normal(size=d)
    psi /= np.linalg.norm(psi)
    O = rng.normal(size=(d, d)) + 1j * rng.normal(size=(d, d))
    O = O + O.conj().T
    T = 2 * math.pi * UNIT
    N = 8 * UNIT * 4 + 1
    ts = np.arange(N) * T / N
    vals = np.empty(N)
    for i, t in enumerate(ts):
        ps = list(others)
        ps[k] = t
        U = np.asarray(qp.matrix(mk(ps), wire_order=wires))
        v = U @ psi
        vals[i] = np.real(np.vdot(v, O @ v))
    c = np.mean(vals * np.exp(-1j * w["freq"] * ts))
    return dict(confirmed=bool(abs(c) > 1e-8), fourier_coefficient_abs=float(abs(c)), frequency=w["freq"],
                other_parameters=[float(x) for x in others], note="random state and observable seeded by witness['seed']")
