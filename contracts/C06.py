"""C06 Copies, pickles, pytrees and rebinding reproduce operators.

E1 on the real bodies, operators as records of the REAL classes (attribute dictionaries with symbolic / opaque values):
(1) Operator / Operator2 / CompositeOp / SymbolicOp / MeasurementProcess __copy__ and Operator / Operator2 __deepcopy__:
    a new object of the same class with exactly the attributes of the original; which attributes are shared, which rebuilt, is read off
    the body (Operator: `_data` through copy.copy, `_hyperparameters` a new dict with the same values; composites copy every operand;
    symbolic operators copy their base); deep copies share no mutable sub-object and copy a sub-object that is referenced twice ONCE
    (the memo is registered and passed on); the original is untouched.
(2) `cls._unflatten(*op._flatten())` for Operator, CompositeOp, Sum, Adjoint, Controlled, Pow, SProd, Exp and MeasurementProcess
    (LinearCombination: native stand-in only): the constructor receives exactly the original's data / wires / hyperparameters / operands in
    order (the constructor call is observed; that the constructor then reproduces the operator is the constructors' own contract,
    exercised by the bounded stand-in).
(4) bind_new_parameters overloads: the new operator is built from EXACTLY the new parameters in order, every other constructor argument
    is the original's; the composite overload hands each operand the next `num_params` parameters -- for 1..3 operands AND for a
    symbolic number of operands with a loop invariant over the running sum POS(i) (the slices [POS(j), POS(j+1)) partition the
    parameter sequence: every parameter used exactly once, in order); the input operator is untouched.
Every E1 case has a native counterpart (real operators through the real method, same conditions) used to replay counterexamples.
(5) MeasurementProcess copy / flatten round trip (obs / mv / eigvals / wires-only variants).
Bounded stand-in: real operators from a generator table through copy / deepcopy / pickle / pytree flatten-unflatten /
bind_new_parameters, compared with qp.equal, hash and np.shares_memory.
"""
import copy as _copy
import importlib
import itertools

import z3

from vf.common import Plan, Obligation, Outcome, DISCHARGED, REFUTED
from vf.pyvc.engine import World, T, Int, Float, Label, RecT, SeqT, Rec, PyList, SeqV, FuncRef, Model, Unsupp, RaiseExc, fresh
from vf.pyvc.contract import FnContract, Case, obligations_for, lemma
from vf.pyvc.interp import Interp
from vf.pyvc.spec import And
from vf.pyvc.aseq import s_len, s_at

PID = "C06"
BASE = "pennylane/core/operator/base.py"
OP2 = "pennylane/core/operator/operator2.py"
MEAS = "pennylane/core/measurements.py"
BNP = "pennylane/ops/functions/bind_new_parameters.py"
OM = "pennylane/ops/op_math/"
NoneV = T("const", None)
ARR_SRC = "class Arr:\n    pass\n"          # a mutable sub-object (an array, a nested container) held in an attribute


def same(a, b):
    """identity for objects, equality for symbolic scalars"""
    if isinstance(a, z3.ExprRef) and isinstance(b, z3.ExprRef):
        return z3.is_true(z3.simplify(a == b)) if a.sort() == b.sort() else False
    return a is b or (not isinstance(a, (Rec, PyList, dict, list)) and type(a) is type(b) and a == b)


def build(tier, seed):
    plan = Plan(PID, level="other")
    plan.explanation = (
        "The real __copy__/__deepcopy__/_flatten/_unflatten bodies of the operator base classes, the op_math wrappers and MeasurementProcess, "
        "and the bind_new_parameters overloads are executed on records of the real classes with opaque attribute values; constructor calls "
        "are observed (arguments and keywords), library copy / deepcopy are modelled with identity tracking (memo). A bounded native "
        "stand-in runs the round trips on real operators.")
    plan.trusted_base = ["vf/pyvc encoder (records with identity, vars(), setattr, __dict__ views)", "model of copy.copy / copy.deepcopy (new object, "
                         "memo honoured) on the abstract values"]
    plan.assumptions = ["attribute values are opaque: scalars / immutable values are shared by copies, mutable sub-objects are records with identity",
                        "constructors reproduce an operator from its own data / wires / hyperparameters (checked natively only, bounded)"]
    plan.assumed_contracts = ["copy.copy / copy.deepcopy (stdlib) on attribute values", "the recursive bind_new_parameters call on an operand / base "
                              "returns that operand rebuilt with the given parameters (each overload is verified against this contract)"]
    plan.dropped = ["docstrings, capture / primitive binding paths, pickling (native stand-in only)"]
    plan.size_bounds = ["operands of composites: 1..3; data tuples: 0..3 parameters; hyperparameter dictionaries with 2 keys; "
                        "native stand-in: a table of about 45 operator instances"]
    plan.unverified = ["JAX pytree registration and capture-primitive binding", "pytrees.flatten / unflatten recursion (native stand-in only)",
                       "Operator2._flatten/_unflatten (bound-argument bookkeeping)", "bind_new_parameters overloads in E1: the singledispatch base (try/except constructor fallback), Operator2 dynamic arguments, "
                       "LinearCombination, parametric controlled ops, `_` (TrotterProduct), both bind_new_parameters_adjoint, identity, copy, projector, "
                       "HilbertSchmidt, QSVT, Select, AngleEmbedding (native stand-in instances only where the table has one)",
                       "ChangeOpBasis / LinearCombination / Evolution flatten and copy overrides (LinearCombination natively only)",
                       "that every operator class's constructor accepts its own flattened form (bounded stand-in over the table only)"]
    contracts = []
    cell = {}

    # ------------------------------------------------------------------------------------------ library models
    def b_vars(it, args, kw):
        return dict(args[0].f)

    def b_setattr(it, args, kw):
        args[0].f[args[1]] = args[2]
        return None

    def b_hasattr(it, args, kw):
        o, name = args
        return isinstance(o, Rec) and (name in o.f or name in o.cls.methods or name in o.cls.props)

    def shallow(v):
        if isinstance(v, Rec):
            if "__copy__" in v.cls.methods:
                return cell["it"].call_method(v, "__copy__", [], {})
            r = Rec(v.cls, dict(v.f))
            cell.setdefault("copies", []).append((v, r))
            return r
        if isinstance(v, dict):
            return dict(v)
        if isinstance(v, PyList):
            return PyList(list(v.items))
        return v          # tuples, numbers, opaque immutable values: copy.copy returns the object itself

    def b_copy(it, args, kw):
        cell["it"] = it
        return shallow(args[0])

    def deep(v, memo):
        if isinstance(v, Rec):
            if memo is not None and id(v) in memo:
                return memo[id(v)]
            r = Rec(v.cls, {})
            if memo is not None:
                memo[id(v)] = r
            for k, x in v.f.items():
                r.f[k] = deep(x, memo)
            return r
        if isinstance(v, dict):
            return {k: deep(x, memo) for k, x in v.items()}
        if isinstance(v, PyList):
            return PyList([deep(x, memo) for x in v.items])
        if isinstance(v, tuple):
            return tuple(deep(x, memo) for x in v)
        return v

    def b_deepcopy(it, args, kw):
        memo = args[1] if len(args) > 1 else kw.get("memo")
        cell.setdefault("deepcopy_calls", []).append(memo)
        return deep(args[0], memo if isinstance(memo, dict) else {})
    def b_dict(it, args, kw):
        if not args:
            return dict(kw)
        x = args[0]
        if isinstance(x, dict):
            return dict(x, **kw)
        items = x.items if isinstance(x, PyList) else x
        if not isinstance(items, (tuple, list)) or not all(isinstance(p, (tuple, PyList)) for p in items):
            raise Unsupp("dict() of a non-enumerated value")
        out = {}
        for p in items:
            k, v = (p.items if isinstance(p, PyList) else p)
            out[k] = v
        out.update(kw)
        return out
    LIB = {"dict": b_dict, "vars": b_vars, "setattr": b_setattr, "hasattr": b_hasattr, "id": lambda it, a, k: id(a[0]), "copy.copy": b_copy, "copy": b_copy,
           "copy.deepcopy": b_deepcopy, "deepcopy": b_deepcopy, "handle_recursion_error": lambda it, a, k: a[0]}

    def ghost(ctx, a):
        cell.clear()
        cell["ctx"] = ctx

    def attrs_type(cls_name, world, extra=None):
        """an operator record: `_data` tuple, `_hyperparameters` dict holding one opaque value and one mutable sub-object that is ALSO
        referenced from a second attribute, `_wires`, `_name`, plus class-specific attributes"""
        def ctor(ctx, name):
            arr = Rec(world.classes["Arr"], {"tag": z3.Int(ctx.fresh_name("arr"))})
            f = {"_data": (fresh(ctx, Float, "p0"), fresh(ctx, Float, "p1")), "_hyperparameters": {"h_scalar": fresh(ctx, Label, "h"), "h_array": arr},
                 "_wires": fresh(ctx, Label, "wires"), "_name": "Op", "_cached": arr, "_id": None}
            f.update(extra(ctx, world) if extra else {})
            return Rec(world.classes[cls_name], f)
        return T("build", ctor, gen=lambda rng: None)

    def unchanged(x, y, seen):
        """deep: the pre-state value x and the post-state value y denote the same objects with the same contents"""
        if isinstance(x, (Rec, PyList)):
            if not isinstance(y, type(x)) or x.origin is not y.origin:
                return False
            if id(x) in seen:
                return True
            seen.add(id(x))
            if isinstance(x, PyList):
                return len(x.items) == len(y.items) and all(unchanged(p, q, seen) for p, q in zip(x.items, y.items))
            return list(x.f.keys()) == list(y.f.keys()) and all(unchanged(x.f[k], y.f[k], seen) for k in x.f)
        if isinstance(x, dict):
            return isinstance(y, dict) and list(x.keys()) == list(y.keys()) and all(unchanged(x[k], y[k], seen) for k in x)
        if isinstance(x, tuple):
            return isinstance(y, tuple) and len(x) == len(y) and all(unchanged(p, q, seen) for p, q in zip(x, y))
        return same(x, y)

    def untouched(o_rec, nw_rec):
        """frame: the original (and everything reachable from it) has the same attributes with the same values as before"""
        return unchanged(o_rec, nw_rec, set())

    def native_skip(rng, m):
        return m

    # ================================================================================================ (1) copies
    wb = World(BASE, classes={"Operator": {}}, stubs={"Arr": (ARR_SRC, {"tag": Int})}, extra_builtins=LIB)
    w2 = World(OP2, classes={"Operator2": {}}, stubs={"Arr": (ARR_SRC, {"tag": Int})}, extra_builtins=LIB)

    def post_copy(cls_name, rebuilt):
        """`rebuilt`: attribute -> how the copy's value relates to the original's ("copy.copy" / "new dict, same values")"""
        def post(o, r, nw):
            if not isinstance(nw.self, Rec):
                return r.ok if isinstance(r, Verdict) else True
            src = nw.self
            if not (isinstance(r, Rec) and r is not src and r.cls is src.cls and list(sorted(r.f)) == list(sorted(src.f))):
                return False
            for k, v in src.f.items():
                c = r.f[k]
                how = rebuilt.get(k)
                if how == "new dict, same values":
                    if not (isinstance(c, dict) and c is not v and list(c.keys()) == list(v.keys()) and all(c[j] is v[j] or same(c[j], v[j]) for j in v)):
                        return False
                elif how == "copied operands":
                    if not (isinstance(c, tuple) and len(c) == len(v) and all(isinstance(x, Rec) and x is not y and x.cls is y.cls and
                                                                              all(same(x.f[a_], y.f[a_]) or a_ in ("_hyperparameters",) for a_ in y.f)
                                                                              for x, y in zip(c, v))):
                        return False
                elif how == "hyperparameters with a copied base":
                    if not (isinstance(c, dict) and c is not v and list(c.keys()) == list(v.keys()) and
                            all((c[j] is not v[j] and isinstance(c[j], Rec) and c[j].cls is v[j].cls) if j == "base" else (c[j] is v[j] or same(c[j], v[j]))
                                for j in v)):
                        return False
                elif not (c is v or same(c, v) or (isinstance(v, tuple) and isinstance(c, tuple) and len(c) == len(v) and all(same(p, q) for p, q in zip(c, v)))):
                    return False
            return untouched(o.self, nw.self)
        return post
    contracts.append(FnContract(wb, "Operator.__copy__", [
        Case("attributes shared, _data via copy.copy, _hyperparameters a new dict", {"self": attrs_type("Operator", wb)}, ghost=ghost,
             ensures=post_copy("Operator", {"_hyperparameters": "new dict, same values"}), native_gen=native_skip, native_call=scenario("Operator.__copy__"), native_raw=True)]))
    contracts.append(FnContract(w2, "Operator2.__copy__", [
        Case("every attribute shared", {"self": attrs_type("Operator2", w2)}, ghost=ghost, ensures=post_copy("Operator2", {}),
             native_gen=native_skip, native_call=scenario("Operator2.__copy__"), native_raw=True)]))

    def post_deepcopy(shared_data):
        def post(o, r, nw):
            if not isinstance(nw.self, Rec):
                return r.ok if isinstance(r, Verdict) else True
            src, memo = nw.self, nw.memo
            if not (isinstance(r, Rec) and r is not src and r.cls is src.cls and sorted(r.f) == sorted(src.f)):
                return False
            if not (isinstance(memo, dict) and memo.get(id(src)) is r):          # the copy is registered in the memo
                return False
            arr, arr_c = src.f["_hyperparameters"]["h_array"], r.f["_hyperparameters"]["h_array"]
            ok = r.f["_hyperparameters"] is not src.f["_hyperparameters"] and isinstance(arr_c, Rec) and arr_c is not arr and \
                same(arr_c.f["tag"], arr.f["tag"]) and r.f["_cached"] is arr_c          # no sharing; the twice-referenced object is copied ONCE
            data_ok = all(same(p, q) for p, q in zip(r.f["_data"], src.f["_data"])) and len(r.f["_data"]) == len(src.f["_data"])
            scal_ok = same(r.f["_hyperparameters"]["h_scalar"], src.f["_hyperparameters"]["h_scalar"]) and same(r.f["_wires"], src.f["_wires"])
            return ok and data_ok and scal_ok and untouched(o.self, nw.self)
        return post
    MEMO = T("build", lambda ctx, name: {}, gen=lambda rng: {})
    contracts.append(FnContract(wb, "Operator.__deepcopy__", [
        Case("no mutable state shared, memo registered and passed on", {"self": attrs_type("Operator", wb), "memo": MEMO}, ghost=ghost,
             ensures=post_deepcopy(True), native_gen=native_skip, native_call=scenario("Operator.__deepcopy__"), native_raw=True)]))
    contracts.append(FnContract(w2, "Operator2.__deepcopy__", [
        Case("no mutable state shared, memo registered and passed on", {"self": attrs_type("Operator2", w2), "memo": MEMO}, ghost=ghost,
             ensures=post_deepcopy(False), native_gen=native_skip, native_call=scenario("Operator2.__deepcopy__"), native_raw=True)]))

    # CompositeOp.__copy__ / SymbolicOp.__copy__: operands / base are copied too
    wcomp = World(OM + "composite.py", classes={"CompositeOp": {}, "Operator": (BASE, {})}, stubs={"Arr": (ARR_SRC, {"tag": Int})}, extra_builtins=LIB)

    def comp_extra(n):
        def extra(ctx, world):
            ops = tuple(Rec(world.classes["Operator"], {"_data": (fresh(ctx, Float, f"q{i}"),), "_hyperparameters": {}, "_wires": fresh(ctx, Label, f"w{i}"),
                                                        "_name": f"op{i}"}) for i in range(n))
            return {"operands": ops}
        return extra
    for n in (1, 2, 3):
        contracts.append(FnContract(wcomp, "CompositeOp.__copy__", [
            Case(f"{n} operands: each operand copied, in order", {"self": attrs_type("CompositeOp", wcomp, comp_extra(n))}, ghost=ghost,
                 ensures=post_copy("CompositeOp", {"operands": "copied operands"}), native_gen=native_skip, native_call=scenario("CompositeOp.__copy__"), native_raw=True,
                 size_bounded=True)]))
    wsym = World(OM + "symbolicop.py", classes={"SymbolicOp": {}, "Operator": (BASE, {})}, stubs={"Arr": (ARR_SRC, {"tag": Int})}, extra_builtins=LIB)

    def sym_type():
        def ctor(ctx, name):
            base = Rec(wsym.classes["Operator"], {"_data": (fresh(ctx, Float, "b0"),), "_hyperparameters": {}, "_wires": fresh(ctx, Label, "bw"), "_name": "B"})
            return Rec(wsym.classes["SymbolicOp"], {"_hyperparameters": {"base": base, "h_scalar": fresh(ctx, Label, "h")}, "_name": "Sym", "_id": None,
                                                     "_pauli_rep": None})
        return T("build", ctor, gen=lambda rng: None)
    contracts.append(FnContract(wsym, "SymbolicOp.__copy__", [
        Case("hyperparameters copied, base copied", {"self": sym_type()}, ghost=ghost,
             ensures=post_copy("SymbolicOp", {"_hyperparameters": "hyperparameters with a copied base"}), native_gen=native_skip,
             native_call=scenario("SymbolicOp.__copy__"), native_raw=True)]))

    # ================================================================================================ (2) flatten / unflatten round trips
    class Built(Model):
        """the object a (modelled) constructor call returns: records the class and the arguments it was given"""

        def __init__(self, cls, args, kwargs):
            self.cls, self.args, self.kwargs = cls, list(args), dict(kwargs)

    def ctor(name):
        return lambda it, args, kw: Built(name, args, kw)
    CTOR = FuncRef("builtin", "CTOR")

    def round_trip(world, cls_qual, self_type, expect, label, size_bounded=True):
        """Case on _flatten whose postcondition feeds the result into the REAL _unflatten (cls = an observed constructor) and compares the
        constructor call with `expect(self) -> (args, kwargs)`"""
        def post(o, r, nw):
            if not isinstance(nw.self, Rec):
                return r.ok if isinstance(r, Verdict) else True
            if not (isinstance(r, tuple) and len(r) == 2):
                return False
            it = Interp(cell["ctx"], None)
            fn = world.classes[cls_qual].methods["_unflatten"]
            try:
                built = it.call_user(fn, [CTOR, r[0], r[1]], {}, world.classes[cls_qual], qual=None)
            except RaiseExc:
                return False
            if not isinstance(built, Built):
                return False
            want_args, want_kwargs = expect(nw.self)
            got_args = [x for x in built.args]
            return len(got_args) == len(want_args) and all(same(a_, b_) or seq_same(a_, b_) for a_, b_ in zip(got_args, want_args)) and \
                sorted(built.kwargs) == sorted(want_kwargs) and all(same(built.kwargs[k], want_kwargs[k]) or seq_same(built.kwargs[k], want_kwargs[k])
                                                                    for k in want_kwargs) and untouched(o.self, nw.self)
        return Case(label, {"self": self_type}, ghost=ghost, ensures=post, native_gen=native_skip, native_call=scenario("roundtrip:" + cls_qual), native_raw=True, size_bounded=size_bounded)

    def seq_same(a_, b_):
        xs = list(a_.items) if isinstance(a_, PyList) else (list(a_) if isinstance(a_, (tuple, list)) else None)
        ys = list(b_.items) if isinstance(b_, PyList) else (list(b_) if isinstance(b_, (tuple, list)) else None)
        return xs is not None and ys is not None and len(xs) == len(ys) and all(same(p, q) or seq_same(p, q) for p, q in zip(xs, ys))
    RT_LIB = dict(LIB, CTOR=ctor("cls"), pow=ctor("pow"))

    def op_type(world, cls_name, ndata, extra=None):
        def c(ctx, name):
            f = {"_data": tuple(fresh(ctx, Float, f"p{i}") for i in range(ndata)), "_wires": fresh(ctx, Label, "wires"), "_name": "Op",
                 "_hyperparameters": {"alpha": fresh(ctx, Label, "ha"), "beta": fresh(ctx, Label, "hb")}}
            f.update(extra(ctx) if extra else {})
            return Rec(world.classes[cls_name], f)
        return T("build", c, gen=lambda rng: None)
    wb2 = World(BASE, classes={"Operator": {}}, extra_builtins=RT_LIB)
    for nd in (0, 1, 3):
        contracts.append(FnContract(wb2, "Operator._flatten", [round_trip(
            wb2, "Operator", op_type(wb2, "Operator", nd),
            lambda s: (list(s.f["_data"]), {"wires": s.f["_wires"], "alpha": s.f["_hyperparameters"]["alpha"], "beta": s.f["_hyperparameters"]["beta"]}),
            f"round trip, {nd} parameters: cls(*data, wires=wires, **hyperparameters)")]))

    def operands(ctx, world, n):
        return tuple(Rec(world.classes["Operator"], {"_data": (fresh(ctx, Float, f"q{i}"),), "_hyperparameters": {}, "_wires": fresh(ctx, Label, f"w{i}"),
                                                     "_name": f"op{i}"}) for i in range(n))
    wcf = World(OM + "composite.py", classes={"CompositeOp": {}, "Operator": (BASE, {})}, extra_builtins=RT_LIB)
    wsum = World(OM + "sum.py", classes={"Sum": {}, "Operator": (BASE, {})}, extra_builtins=RT_LIB)
    wcob = World(OM + "change_op_basis.py", classes={"ChangeOpBasis": {}, "CompositeOp": (OM + "composite.py", {}), "Operator": (BASE, {})}, extra_builtins=RT_LIB)
    for n in (1, 2, 3):
        contracts.append(FnContract(wcf, "CompositeOp._flatten", [round_trip(
            wcf, "CompositeOp", op_type(wcf, "CompositeOp", 0, lambda ctx, n=n: {"operands": operands(ctx, wcf, n)}),
            lambda s: (list(s.f["operands"]), {}), f"round trip, {n} operands in order: cls(*operands)")]))
        contracts.append(FnContract(wsum, "Sum._flatten", [round_trip(
            wsum, "Sum", op_type(wsum, "Sum", 0, lambda ctx, n=n: {"operands": operands(ctx, wsum, n), "_grouping_indices": fresh(ctx, Label, "gi")}),
            lambda s: (list(s.f["operands"]), {"_grouping_indices": s.f["_grouping_indices"]}), f"round trip, {n} operands: cls(*operands, _grouping_indices=...)")]))

    def sym_op(world, cls_name, extra):
        def c(ctx, name):
            base = Rec(world.classes["Operator"], {"_data": (fresh(ctx, Float, "b0"),), "_hyperparameters": {}, "_wires": fresh(ctx, Label, "bw"), "_name": "B"})
            f = {"_hyperparameters": {"base": base}, "_name": cls_name, "_data": ()}
            f.update(extra(ctx))
            f["_hyperparameters"].update(f.pop("__hp__", {}))
            return Rec(world.classes[cls_name], f)
        return T("build", c, gen=lambda rng: None)

    def sym_world(file, cls_name):
        return World(OM + file, classes={cls_name: {}, "ScalarSymbolicOp": (OM + "symbolicop.py", {}), "SymbolicOp": (OM + "symbolicop.py", {}),
                                               "Operator": (BASE, {})}, extra_builtins=RT_LIB)
    wadj = sym_world("adjoint.py", "Adjoint")
    contracts.append(FnContract(wadj, "Adjoint._flatten", [round_trip(
        wadj, "Adjoint", sym_op(wadj, "Adjoint", lambda ctx: {}), lambda s: ([s.f["_hyperparameters"]["base"]], {}), "round trip: cls(base)", False)]))
    wpow = sym_world("pow.py", "Pow")
    contracts.append(FnContract(wpow, "Pow._flatten", [round_trip(
        wpow, "Pow", sym_op(wpow, "Pow", lambda ctx: {"__hp__": {"z": fresh(ctx, Float, "z")}, "scalar": fresh(ctx, Float, "z2")}),
        lambda s: ([s.f["_hyperparameters"]["base"]], {"z": s.f["_hyperparameters"]["z"]}),
        "round trip: pow(base, z=z)", False)]))
    wsp = sym_world("sprod.py", "SProd")
    contracts.append(FnContract(wsp, "SProd._flatten", [round_trip(
        wsp, "SProd", sym_op(wsp, "SProd", lambda ctx: {"scalar": fresh(ctx, Float, "scalar")}),
        lambda s: ([s.f["scalar"], s.f["_hyperparameters"]["base"]], {}), "round trip: cls(scalar, base)", False)]))
    wexp = sym_world("exp.py", "Exp")
    contracts.append(FnContract(wexp, "Exp._flatten", [round_trip(
        wexp, "Exp", sym_op(wexp, "Exp", lambda ctx: {"scalar": fresh(ctx, Float, "coeff")}),
        lambda s: ([s.f["_hyperparameters"]["base"], s.f["scalar"]], {}), "round trip: cls(base, coeff)", False)]))
    wctl = sym_world("controlled.py", "Controlled")
    contracts.append(FnContract(wctl, "Controlled._flatten", [round_trip(
        wctl, "Controlled", sym_op(wctl, "Controlled", lambda ctx: {"__hp__": {"control_wires": fresh(ctx, Label, "cw"), "control_values": (True, False),
                                                                                 "work_wires": fresh(ctx, Label, "ww"), "work_wire_type": "borrowed"}}),
        lambda s: ([s.f["_hyperparameters"]["base"]], {k: s.f["_hyperparameters"][k] for k in ("control_wires", "control_values", "work_wires", "work_wire_type")}),
        "round trip: cls(base, control_wires=, control_values=, work_wires=, work_wire_type=)", False)]))

    # ================================================================================================ (5) MeasurementProcess
    wmp = World(MEAS, classes={"MeasurementProcess": {}, "Operator": (BASE, {})}, extra_builtins=dict(RT_LIB, truthy=lambda it, a, k: True))

    def mp_type(variant):
        def c(ctx, name):
            obs = Rec(wmp.classes["Operator"], {"_data": (fresh(ctx, Float, "o0"),), "_hyperparameters": {}, "_wires": fresh(ctx, Label, "ow"), "_name": "O"})
            f = {"obs": obs if variant == "obs" else None, "mv": fresh(ctx, Label, "mv") if variant == "mv" else None,
                 "_wires": fresh(ctx, Label, "wires") if variant in ("wires", "eigvals") else None,
                 "_eigvals": fresh(ctx, Label, "eig") if variant == "eigvals" else None, "id": None}
            f["raw_wires"] = f["_wires"]
            return Rec(wmp.classes["MeasurementProcess"], f)
        return T("build", c, gen=lambda rng: None)

    def mp_expect(variant):
        def e(s):
            if variant == "obs":
                return [], {"obs": s.f["obs"], "wires": s.f["raw_wires"]}
            if variant == "mv":
                return [], {"obs": s.f["mv"], "wires": s.f["raw_wires"]}
            if variant == "eigvals":
                return [], {"eigvals": s.f["_eigvals"], "wires": s.f["raw_wires"]}
            return [], {"wires": s.f["raw_wires"]}
        return e
    for variant in ("obs", "mv", "eigvals", "wires"):
        contracts.append(FnContract(wmp, "MeasurementProcess._flatten", [round_trip(
            wmp, "MeasurementProcess", mp_type(variant), mp_expect(variant), f"round trip, {variant} variant", False)]))

    def post_mp_copy(o, r, nw):
        if not isinstance(nw.self, Rec):
            return r.ok if isinstance(r, Verdict) else True
        src = nw.self
        if not (isinstance(r, Rec) and r is not src and r.cls is src.cls and sorted(r.f) == sorted(src.f)):
            return False
        for k, v in src.f.items():
            c = r.f[k]
            if k == "obs" and v is not None:
                if not (isinstance(c, Rec) and c is not v and c.cls is v.cls and all(same(c.f[j], v.f[j]) or j == "_hyperparameters" for j in v.f)):
                    return False
            elif not (c is v or same(c, v)):
                return False
        return untouched(o.self, nw.self)
    wmpc = World(MEAS, classes={"MeasurementProcess": {}, "Operator": (BASE, {})}, extra_builtins=LIB)
    for variant in ("obs", "mv", "wires"):
        def mk(variant=variant):
            t = mp_type(variant)
            inner = t.args[0]

            def c(ctx, name):
                r = inner(ctx, name)
                return Rec(wmpc.classes["MeasurementProcess"], {k: (Rec(wmpc.classes["Operator"], dict(v.f)) if isinstance(v, Rec) else v) for k, v in r.f.items()})
            return T("build", c, gen=lambda rng: None)
        contracts.append(FnContract(wmpc, "MeasurementProcess.__copy__", [
            Case(f"{variant} variant: attributes shared, obs copied", {"self": mk()}, ghost=ghost, ensures=post_mp_copy, native_gen=native_skip,
                 native_call=scenario("MeasurementProcess.__copy__"), native_raw=True)]))

    # ================================================================================================ (4) bind_new_parameters
    class Bound(Model):
        """result of the (recursive) bind_new_parameters(op, params) call: `op` rebuilt with exactly `params`"""

        def __init__(self, op, params):
            self.op, self.params = op, params

    def mc_bind(it, args, kwargs):
        return Bound(args[0], args[1])
    OPSTUB = ("class Operand:\n    pass\n", {"num_params": Int, "tag": Int})
    GEN_SRC = ("class GenOp:\n    def __init__(self, *args, **kwargs):\n        self.ctor_args = args\n        self.ctor_kwargs = kwargs\n")
    names = ["Adjoint", "SProd", "Pow", "Pow2", "Adjoint2", "ApproxTimeEvolution", "TrotterProduct", "CommutingEvolution", "QDrift",
             "FermionicDoubleExcitation", "Identity", "Projector"]
    bnp_lib = dict(LIB, **{n_: ctor(n_) for n_ in names}, **{"ops.LinearCombination": ctor("LinearCombination"), "ops.Conditional": ctor("Conditional"),
                                                            "queuing.QueuingManager.recording": lambda it, a, k: False, "capture.enabled": lambda it, a, k: False})
    fn_names = ["bind_new_parameters", "bind_new_parameters_approx_time_evolution", "bind_new_parameters_commuting_evolution", "bind_new_parameters_qdrift",
                "bind_new_parameters_fermionic_double_excitation", "bind_new_parameters_identity", "bind_new_parameters_linear_combination",
                "bind_new_parameters_composite_op", "bind_new_parameters_parametric_controlled_ops", "bind_new_parameters_symbolic_op",
                "bind_new_parameters_controlled_sequence", "bind_new_parameters_prep_sel_prep", "bind_new_parameters_projector",
                "bind_new_parameters_scalar_symbolic_op", "bind_new_parameters_sprod", "bind_new_parameters_pow", "bind_new_parameters_pow2",
                "bind_new_parameters_conditional", "bind_new_parameters_controlled_op2", "bind_new_parameters_copy"]
    wbn = World(BNP, functions=fn_names, stubs={"GenOp": (GEN_SRC, {}), "Operand": OPSTUB}, modular={"bind_new_parameters": mc_bind}, extra_builtins=bnp_lib)
    PARAMS = SeqT(Float, tuple=True)
    # the composite cases use axiomatic sequences; their world is separate so that the quantified axioms do not weaken the
    # counter-model search of the other cases.  The theory is registered before the first case is set up.
    wbn_ax = World(BNP, functions=fn_names, stubs={"GenOp": (GEN_SRC, {}), "Operand": OPSTUB}, modular={"bind_new_parameters": mc_bind}, extra_builtins=bnp_lib)
    wbn_ax.aseq(Float)

    def gen_op(fields):
        def c(ctx, name):
            return Rec(wbn.classes["GenOp"], fields(ctx))
        return T("build", c, gen=lambda rng: None)

    def is_bound(x, op, params_term):
        return isinstance(x, Bound) and x.op is op and isinstance(x.params, SeqV) and z3.is_true(z3.simplify(x.params.term == params_term)) or \
            (isinstance(x, Bound) and x.op is op and isinstance(x.params, SeqV) and x.params.term.eq(params_term))

    def seq_goal(x, term):
        """z3 goal: the sequence value x equals `term`"""
        return x.term == term if isinstance(x, SeqV) else False

    def tm(x):
        return getattr(x, "t", x)

    def eqt(x, y):
        """z3 equality of two scalar values (False when they are not even of the same kind)"""
        x, y = tm(x), tm(y)
        if isinstance(x, z3.ExprRef) and isinstance(y, z3.ExprRef):
            return x == y if x.sort() == y.sort() else False
        return False

    def built_args(r):
        if isinstance(r, Built):
            return r.cls, r.args, r.kwargs
        if isinstance(r, Rec) and r.cls.name == "GenOp":
            return "GenOp", list(r.f["ctor_args"]), dict(r.f["ctor_kwargs"])
        return None, None, None

    def bnp_case(fname, label, op_fields, check, size_bounded=False, requires=None, params_t=None, world=None):
        def post(o, r, nw):
            if not isinstance(nw.op, Rec):
                return r.ok if isinstance(r, Verdict) else True
            cls, args, kwargs = built_args(r)
            if cls is None:
                return False
            return And(check(nw.op, nw.params, cls, args, kwargs), untouched(o.op, nw.op))
        contracts.append(FnContract(world or wbn, fname, [Case(label, {"op": gen_op(op_fields), "params": params_t or PARAMS}, ghost=ghost, requires=requires, ensures=post,
                                                      native_gen=native_skip, native_call=scenario("bind:" + fname.replace("bind_new_parameters_", "")), native_raw=True, size_bounded=size_bounded)]))
    L = z3.Length
    need1 = lambda a: L(a.params.term) >= 1 if isinstance(a.params, SeqV) else True

    def base_fields(ctx):
        return {"hyperparameters": {"base": Rec(wbn.classes["Operand"], {"num_params": fresh(ctx, Int, "n"), "tag": 1}), "n": fresh(ctx, Label, "n_"),
                                    "order": fresh(ctx, Label, "order"), "seed": fresh(ctx, Label, "seed"), "hamiltonian": None},
                "wires": fresh(ctx, Label, "wires")}

    def with_base(ctx):
        f = base_fields(ctx)
        f["base"] = f["hyperparameters"]["base"]
        f["scalar"], f["z"] = fresh(ctx, Label, "scalar"), fresh(ctx, Label, "z")
        f["control"], f["lcu"] = fresh(ctx, Label, "control"), f["hyperparameters"]["base"]
        f["control_wires"], f["control_values"], f["work_wires"], f["work_wire_type"] = (fresh(ctx, Label, k) for k in ("cw", "cv", "ww", "wwt"))
        f["meas_val"] = fresh(ctx, Label, "mv")
        return f

    def whole(x, op_base, params):
        return isinstance(x, Bound) and x.op is op_base and x.params is params
    bnp_case("bind_new_parameters_sprod", "SProd(params[0], bind(base, params[1:]))", with_base,
             lambda op, p, cls, a, k: cls == "SProd" and len(a) == 2 and not k and isinstance(a[1], Bound) and a[1].op is op.f["base"] and
             And(L(p.term) > 0, eqt(a[0], p.term[0]), seq_goal(a[1].params, z3.Extract(p.term, 1, L(p.term) - 1))),
             requires=need1)
    bnp_case("bind_new_parameters_pow", "Pow(bind(base, params), scalar)", with_base,
             lambda op, p, cls, a, k: cls == "Pow" and len(a) == 2 and not k and whole(a[0], op.f["base"], p) and same(a[1], op.f["scalar"]))
    bnp_case("bind_new_parameters_pow2", "Pow2(bind(base, params), z=z)", with_base,
             lambda op, p, cls, a, k: cls == "Pow2" and len(a) == 1 and list(k) == ["z"] and whole(a[0], op.f["base"], p) and same(k["z"], op.f["z"]))
    bnp_case("bind_new_parameters_controlled_sequence", "cls(bind(base, params), control=control)", with_base,
             lambda op, p, cls, a, k: cls == "GenOp" and len(a) == 1 and list(k) == ["control"] and whole(a[0], op.f["base"], p) and same(k["control"], op.f["control"]))
    bnp_case("bind_new_parameters_prep_sel_prep", "cls(bind(lcu, params), control=control)", with_base,
             lambda op, p, cls, a, k: cls == "GenOp" and len(a) == 1 and list(k) == ["control"] and whole(a[0], op.f["lcu"], p) and same(k["control"], op.f["control"]))
    bnp_case("bind_new_parameters_controlled_op2", "type(op)(bind(base, params), control_wires=..., control_values=..., work_wires=..., work_wire_type=...)", with_base,
             lambda op, p, cls, a, k: cls == "GenOp" and len(a) == 1 and whole(a[0], op.f["base"], p) and
             sorted(k) == ["control_values", "control_wires", "work_wire_type", "work_wires"] and all(same(k[j], op.f[j]) for j in k))
    bnp_case("bind_new_parameters_conditional", "Conditional(deepcopy(meas_val), bind(base, params))", with_base,
             lambda op, p, cls, a, k: cls == "Conditional" and len(a) == 2 and not k and same(a[0], op.f["meas_val"]) and whole(a[1], op.f["base"], p))

    def hp_fields(ctx):
        f = with_base(ctx)
        f["hyperparameters"].update({"hamiltonian": f["base"], "frequencies": fresh(ctx, Label, "freq"), "shifts": fresh(ctx, Label, "shifts"),
                                     "wires1": fresh(ctx, Label, "w1"), "wires2": fresh(ctx, Label, "w2")})
        return f

    def last_time(cls_name, ham_key, kw_keys):
        def chk(op, p, cls, a, k):
            hp = op.f["hyperparameters"]
            n_ = L(p.term)
            pos_ok = len(a) >= 2 and isinstance(a[0], Bound) and a[0].op is hp[ham_key]
            if not (cls == cls_name and pos_ok):
                return False
            extra_pos = a[2:]
            kws_ok = sorted(k) == sorted(kw_keys) and all(same(k[j], hp[j]) for j in k) and all(same(x, hp["n"]) for x in extra_pos) and len(extra_pos) <= 1
            return And(kws_ok, seq_goal(a[0].params, z3.Extract(p.term, 0, n_ - 1)), eqt(a[1], p.term[n_ - 1]))
        return chk
    bnp_case("bind_new_parameters_approx_time_evolution", "ApproxTimeEvolution(bind(hamiltonian, params[:-1]), params[-1], n)", hp_fields,
             last_time("ApproxTimeEvolution", "hamiltonian", []), requires=need1)
    bnp_case("bind_new_parameters_qdrift", "QDrift(bind(base, params[:-1]), params[-1], n=n, seed=seed)", hp_fields,
             last_time("QDrift", "base", ["n", "seed"]), requires=need1)
    bnp_case("bind_new_parameters_commuting_evolution", "CommutingEvolution(bind(hamiltonian, params[1:]), params[0], frequencies=, shifts=)", hp_fields,
             lambda op, p, cls, a, k: cls == "CommutingEvolution" and len(a) == 2 and isinstance(a[0], Bound) and a[0].op is op.f["hyperparameters"]["hamiltonian"] and
             sorted(k) == ["frequencies", "shifts"] and all(same(k[j], op.f["hyperparameters"][j]) for j in k) and
             And(seq_goal(a[0].params, z3.Extract(p.term, 1, L(p.term) - 1)), eqt(a[1], p.term[0])), requires=need1)
    bnp_case("bind_new_parameters_fermionic_double_excitation", "FermionicDoubleExcitation(params[0], wires1=, wires2=)", hp_fields,
             lambda op, p, cls, a, k: cls == "FermionicDoubleExcitation" and len(a) == 1 and sorted(k) == ["wires1", "wires2"] and
             all(same(k[j], op.f["hyperparameters"][j]) for j in k) and eqt(a[0], p.term[0]), requires=need1)

    # symbolic / scalar-symbolic: the hyperparameters other than `base` are passed on, the original dict keeps its `base`
    def symhp_fields(ctx):
        f = with_base(ctx)
        f["hyperparameters"] = {"base": f["base"], "extra": fresh(ctx, Label, "extra")}
        return f
    bnp_case("bind_new_parameters_symbolic_op", "cls(bind(base, params), **other hyperparameters)", symhp_fields,
             lambda op, p, cls, a, k: cls == "GenOp" and len(a) == 1 and whole(a[0], op.f["base"], p) and list(k) == ["extra"] and
             same(k["extra"], op.f["hyperparameters"]["extra"]) and "base" in op.f["hyperparameters"])
    bnp_case("bind_new_parameters_scalar_symbolic_op", "cls(bind(base, params[1:]), params[0], **other hyperparameters)", symhp_fields,
             lambda op, p, cls, a, k: cls == "GenOp" and len(a) == 2 and isinstance(a[0], Bound) and a[0].op is op.f["base"] and list(k) == ["extra"] and
             same(k["extra"], op.f["hyperparameters"]["extra"]) and "base" in op.f["hyperparameters"] and
             And(eqt(a[1], p.term[0]), seq_goal(a[0].params, z3.Extract(p.term, 1, L(p.term) - 1))), requires=need1)

    # composite: every operand gets the next num_params parameters, in order (1..3 operands, symbolic counts, symbolic-length parameters)
    def comp_fields(n):
        def f(ctx):
            ops = PyList([Rec(wbn.classes["Operand"], {"num_params": fresh(ctx, Int, f"n{i}"), "tag": i}) for i in range(n)])
            return {"operands": ops}
        return f

    def comp_check(op, p, cls, a, k):
        ops = op.f["operands"].items
        if not (cls == "GenOp" and len(a) == len(ops) and not k and all(isinstance(x, Bound) and x.op is o_ for x, o_ in zip(a, ops))):
            return False
        pos, goals = z3.IntVal(0), []
        for x, o_ in zip(a, ops):
            n_ = o_.f["num_params"]
            if not isinstance(x.params, SeqV):
                return False
            k_ = z3.Int(f"k_idx{len(goals)}")          # a free index: the goal holds for every position of the slice
            goals.append(z3.And(s_len(x.params.term) == n_, z3.Implies(z3.And(0 <= k_, k_ < n_), s_at(x.params.term, k_) == s_at(p.term, pos + k_))))
            pos = pos + n_
        return And(True, *goals)

    def comp_requires(n):
        def req(a):
            if not isinstance(a.params, SeqV):
                return True
            ns = [o_.f["num_params"] for o_ in a.op.f["operands"].items]
            return z3.And(*[x >= 0 for x in ns], z3.Sum(ns) == s_len(a.params.term))
        return req
    for n in (1, 2, 3):
        bnp_case("bind_new_parameters_composite_op", f"{n} operands: operand i gets params[sum(n_j, j<i) : ... + n_i]", comp_fields(n), comp_check,
                 size_bounded=True, requires=comp_requires(n), params_t=SeqT(Float, tuple=True, ax=True), world=wbn_ax)

    # composite, SYMBOLIC number of operands: loop invariant over the slicing bookkeeping.  POS(i) = sum of num_params of operands[:i]
    # (POS(0) = 0, POS(i+1) = POS(i) + num_params(operands[i])); the invariant says that after i rounds the remaining parameter
    # sequence is params[POS(i):] and result j < i is operand j bound to params[POS(j):POS(j+1)].  Since POS(n) = len(params) and POS
    # is monotone (lemmas below), the slices partition params: every parameter is used exactly once, in order.
    from vf.pyvc.interp import StarArgs
    from vf.pyvc.contract import LoopSpec
    PAX = SeqT(Float, tuple=True, ax=True)
    BOUND_SRC = "class BoundOp:\n    pass\n"
    POS = z3.Function("C06.pos", z3.IntSort(), z3.IntSort())

    def mc_bind_rec(it, args, kwargs):
        return Rec(wbs.classes["BoundOp"], {"tag": args[0].f["tag"], "count": args[0].f["num_params"], "params": args[1]})
    wbs = World(BNP, functions=["bind_new_parameters", "bind_new_parameters_composite_op"], stubs={"GenOp": (GEN_SRC, {}), "Operand": OPSTUB,
                                                                             "BoundOp": (BOUND_SRC, {"tag": Int, "count": Int, "params": PAX})},
                modular={"bind_new_parameters": mc_bind_rec}, extra_builtins=dict(LIB, CTORSEQ=lambda it, a, k: Built("cls", a, k)))
    wbs.aseq(Float)
    OPS_T = SeqT(RecT("Operand"), ax=True)
    wbs.aseq(RecT("Operand"))
    wbs.aseq(RecT("BoundOp"))

    def sym_op_type():
        def c(ctx, name):
            return Rec(wbs.classes["GenOp"], {"operands": fresh(ctx, OPS_T, "operands"), "__class__": FuncRef("builtin", "CTORSEQ")})
        return T("build", c, gen=lambda rng: None)

    def np_at(ops, j):
        return wbs.unbox(s_at(ops.term, j), ops.elem).f["num_params"]

    def tag_at(ops, j):
        return wbs.unbox(s_at(ops.term, j), ops.elem).f["tag"]

    def pos_axioms(ops, p):
        j, k = z3.Ints("pj pk")
        n = s_len(ops.term)
        return [POS(0) == 0, POS(n) == s_len(p.term),
                z3.ForAll([j], z3.Implies(z3.And(0 <= j, j < n), z3.And(np_at(ops, j) >= 0, POS(j + 1) == POS(j) + np_at(ops, j))), patterns=[POS(j)]),
                z3.ForAll([j, k], z3.Implies(z3.And(0 <= j, j <= k, k <= n), POS(j) <= POS(k)), patterns=[z3.MultiPattern(POS(j), POS(k))])]

    def bound_at(seq, j):
        return wbs.unbox(s_at(seq.term, j), seq.elem)

    def result_ok(res, ops, p, upto, j, k):
        """result j (< upto) is operand j bound to params[POS(j) : POS(j+1)] -- stated for an arbitrary j and position k"""
        b = bound_at(res, j)
        return z3.Implies(z3.And(0 <= j, j < upto),
                          z3.And(b.f["tag"] == tag_at(ops, j), s_len(b.f["params"].term) == np_at(ops, j),
                                 z3.Implies(z3.And(0 <= k, k < np_at(ops, j)), s_at(b.f["params"].term, k) == s_at(p.term, POS(j) + k))))

    def FA(vs, body, patterns):
        try:
            return z3.ForAll(vs, body, patterns=patterns)
        except z3.Z3Exception:          # the instance to PROVE may contain if-terms (no pattern needed: it is skolemised)
            return z3.ForAll(vs, body)

    def sym_inv(v):
        i = v._i0
        ops, p0 = v.op.f["operands"], v.at_entry.params
        j, k = z3.Ints("ij ik")
        cur = v.params
        if isinstance(v.new_operands, PyList):          # loop entry: the empty python list
            return z3.And(len(v.new_operands.items) == 0, i == 0, s_len(cur.term) == s_len(p0.term) - POS(i),
                          FA([k], z3.Implies(z3.And(0 <= k, k < s_len(cur.term)), s_at(cur.term, k) == s_at(p0.term, POS(i) + k)),
                                    patterns=[s_at(cur.term, k)]))
        b = bound_at(v.new_operands, j)
        return z3.And(
            s_len(v.new_operands.term) == i, s_len(cur.term) == s_len(p0.term) - POS(i),
            FA([k], z3.Implies(z3.And(0 <= k, k < s_len(cur.term)), s_at(cur.term, k) == s_at(p0.term, POS(i) + k)), patterns=[s_at(cur.term, k)]),
            FA([j], z3.Implies(z3.And(0 <= j, j < i), z3.And(b.f["tag"] == tag_at(ops, j), s_len(b.f["params"].term) == np_at(ops, j))),
                      patterns=[s_at(v.new_operands.term, j)]),
            FA([j, k], z3.Implies(z3.And(0 <= j, j < i, 0 <= k, k < np_at(ops, j)), s_at(b.f["params"].term, k) == s_at(p0.term, POS(j) + k)),
                      patterns=[s_at(b.f["params"].term, k)]))

    def sym_post(o, r, nw):
        if not isinstance(nw.op, Rec):
            return r.ok if isinstance(r, Verdict) else True
        if not (isinstance(r, Built) and len(r.args) == 1 and isinstance(r.args[0], StarArgs) and not r.kwargs):
            return False
        res, ops, p = r.args[0].seq, nw.op.f["operands"], o.params
        j, k = z3.Int("free_j"), z3.Int("free_k")
        return z3.And(s_len(res.term) == s_len(ops.term), result_ok(res, ops, p, s_len(ops.term), j, k))
    contracts.append(FnContract(wbs, "bind_new_parameters_composite_op", [Case(
        "any number of operands: operand j gets params[POS(j):POS(j+1)], POS = running sum of num_params (loop invariant)",
        {"op": sym_op_type(), "params": PAX}, ghost=ghost, requires=lambda a: z3.And(*pos_axioms(a.op.f["operands"], a.params)) if isinstance(a.op, Rec) else True,
        ensures=sym_post, loops={0: LoopSpec(sym_inv, types={"new_operands": SeqT(RecT("BoundOp"), ax=True), "params": PAX})},
        native_gen=native_skip, native_call=scenario("bind:composite_op"), native_raw=True)]))
    pj, pk, cnt = z3.Ints("lj lk lcnt")
    plan.add(lemma(PID, "partition/POS is monotone: induction step", [pj, pk, cnt], POS(pj) <= POS(pk + 1),
                   assumptions=[POS(pj) <= POS(pk), cnt >= 0, POS(pk + 1) == POS(pk) + cnt]))

    for fc in contracts:
        if not getattr(fc.world, "_linked", False):
            fc.world.link_bases()
            fc.world._linked = True
        plan.fn_under_contract(fc.world.file, fc.qualname)
        for ob in obligations_for(PID, fc, tier):
            plan.add(ob)
    for nm in NATIVE_TABLE:
        plan.add(native_obligation(nm))
    plan.add(pytree_nesting_obligation())
    # candidate defects found by the stand-in on the UNCHANGED tree (replayed natively, reported).  known_findings.json is read only here:
    # an instance joins the plan, tagged, as soon as a finding of this property naming the keyword is registered; after a repair the
    # name belongs into NATIVE_TABLE.
    from vf.common import load_known_findings
    for nm, keyword, what in CANDIDATE_DEFECTS:
        fid = next((f.get("id") for f in load_known_findings() if f.get("property") == PID and keyword in str(f.get("title", "")) + str(f.get("summary", ""))), None)
        if fid:
            ob = native_obligation(nm)
            ob.finding = fid
            plan.add(ob)
        else:
            plan.unverified.append(f"candidate defect (reported, not an obligation until registered): {what}")
    return plan


# ---------------------------------------------------------------------------------------------- bounded native stand-in

class Verdict:
    """outcome of the native counterpart of an E1 case (the same conditions evaluated on real operators)"""

    def __init__(self, problems):
        self.problems, self.ok = list(problems), not problems

    def __repr__(self):
        return "ok" if self.ok else "; ".join(self.problems[:4])


def scenario(kind):
    """native counterpart of the E1 cases of one group: real objects through the real method, same conditions"""
    def run(mod, args):
        import numpy as np
        import pennylane as qp
        bad = []

        def must(cond, msg):
            if not cond:
                bad.append(msg)

        def vars_same(a, before, what):
            # attributes that were None / absent before may be filled lazily (cached hash, empty hyperparameter dict)
            must(all(k in vars(a) and (vars(a)[k] is before[k] or before[k] is None) for k in before), f"{what}: the original's attributes changed")

        def probe_cls():
            class Probe(mod.Operator):
                num_wires = 1

                def __init__(self, x, y, wires, arr=None):
                    self._hyperparameters = {"h_scalar": 3, "h_array": arr}
                    self._cached = arr
                    super().__init__(x, y, wires=wires)
            return Probe
        try:
            if kind in ("Operator.__copy__", "Operator.__deepcopy__"):
                arr = np.array([1.0, 2.0])
                op = probe_cls()(0.1, 0.2, 0, arr)
                before = dict(vars(op))
                if kind == "Operator.__copy__":
                    c = mod.Operator.__copy__(op)
                    must(type(c) is type(op) and c is not op and sorted(vars(c)) == sorted(vars(op)), "copy: class or attribute set differs")
                    must(c._hyperparameters is not op._hyperparameters and list(c._hyperparameters) == list(op._hyperparameters)
                         and all(c._hyperparameters[k] is op._hyperparameters[k] for k in op._hyperparameters), "copy: _hyperparameters is not a new dict with the same values")
                    must(all(vars(c)[k] is vars(op)[k] for k in vars(op) if k not in ("_data", "_hyperparameters")), "copy: an attribute is not shared")
                    must(len(c._data) == 2 and all(x == y for x, y in zip(c._data, op._data)), "copy: _data differs")
                else:
                    memo = {}
                    c = mod.Operator.__deepcopy__(op, memo)
                    must(type(c) is type(op) and c is not op and sorted(vars(c)) == sorted(vars(op)), "deepcopy: class or attribute set differs")
                    must(memo.get(id(op)) is c, "deepcopy: the copy is not registered in the memo")
                    must(c._hyperparameters is not op._hyperparameters and c._hyperparameters["h_array"] is not arr and
                         not np.shares_memory(c._hyperparameters["h_array"], arr) and np.array_equal(c._hyperparameters["h_array"], arr), "deepcopy: mutable state shared")
                    must(c._cached is c._hyperparameters["h_array"], "deepcopy: an object referenced twice was copied twice (memo not passed on)")
                    must(tuple(c._data) == tuple(op._data) and c._wires == op._wires, "deepcopy: data or wires differ")
                vars_same(op, before, kind)
            elif kind in ("Operator2.__copy__", "Operator2.__deepcopy__"):
                op = qp.QubitUnitary(np.array([[0, 1], [1, 0]], dtype=complex), 0)
                shared = np.array([1.0, 2.0])
                op._probe_a, op._probe_b = shared, shared
                before = dict(vars(op))
                if kind == "Operator2.__copy__":
                    c = mod.Operator2.__copy__(op)
                    must(type(c) is type(op) and c is not op and sorted(vars(c)) == sorted(vars(op)) and all(vars(c)[k] is vars(op)[k] for k in vars(op)),
                         "copy: not every attribute is shared")
                else:
                    memo = {}
                    c = mod.Operator2.__deepcopy__(op, memo)
                    must(type(c) is type(op) and c is not op and sorted(vars(c)) == sorted(vars(op)), "deepcopy: class or attribute set differs")
                    must(memo.get(id(op)) is c, "deepcopy: the copy is not registered in the memo")
                    must(c._probe_a is not shared and not np.shares_memory(c._probe_a, shared) and np.array_equal(c._probe_a, shared), "deepcopy: mutable state shared")
                    must(c._probe_a is c._probe_b, "deepcopy: an object referenced twice was copied twice (memo not passed on)")
                    del c._probe_a, c._probe_b
                vars_same(op, before, kind)
                del op._probe_a, op._probe_b
                if kind.endswith("deepcopy__"):
                    must(qp.equal(c, op), "deepcopy: not equal to the original")
            elif kind == "CompositeOp.__copy__":
                for op in (qp.prod(qp.RX(0.1, 0), qp.Rot(0.1, 0.2, 0.3, 1), qp.RY(0.2, 2)), qp.sum(qp.Z(0), qp.RX(0.2, 1))):
                    before = dict(vars(op))
                    c = mod.CompositeOp.__copy__(op)
                    must(type(c) is type(op) and c is not op and sorted(vars(c)) == sorted(vars(op)), "copy: class or attribute set differs")
                    must(len(c.operands) == len(op.operands) and all(x is not y and type(x) is type(y) and qp.equal(x, y) for x, y in zip(c.operands, op.operands)),
                         "copy: operands are not copies of the original's operands in order")
                    must(all(vars(c)[k] is vars(op)[k] for k in vars(op) if k != "operands"), "copy: an attribute is not shared")
                    vars_same(op, before, kind)
            elif kind == "SymbolicOp.__copy__":
                op = qp.ops.op_math.Adjoint(qp.RX(0.3, 0))
                before, hp_before = dict(vars(op)), dict(op._hyperparameters)
                c = mod.SymbolicOp.__copy__(op)
                must(type(c) is type(op) and c is not op and sorted(vars(c)) == sorted(vars(op)), "copy: class or attribute set differs")
                must(c._hyperparameters is not op._hyperparameters and list(c._hyperparameters) == list(op._hyperparameters), "copy: hyperparameters not a new dict")
                must(c.base is not op.base and qp.equal(c.base, op.base), "copy: base is not a copy")
                must(all(vars(c)[k] is vars(op)[k] for k in vars(op) if k != "_hyperparameters"), "copy: an attribute is not shared")
                vars_same(op, before, kind)
                must(all(op._hyperparameters[k] is hp_before[k] for k in hp_before) and list(op._hyperparameters) == list(hp_before), "copy: the original's hyperparameters changed")
            elif kind == "MeasurementProcess.__copy__":
                for m in (qp.expval(qp.RX(0.2, 0) @ qp.Z(1)), qp.probs(wires=[0, 1]), qp.sample(wires=[0])):
                    before = dict(vars(m))
                    c = mod.MeasurementProcess.__copy__(m)
                    must(type(c) is type(m) and c is not m and sorted(vars(c)) == sorted(vars(m)), "copy: class or attribute set differs")
                    if m.obs is not None:
                        must(c.obs is not m.obs and qp.equal(c.obs, m.obs), "copy: obs is not a copy")
                    must(all(vars(c)[k] is vars(m)[k] for k in vars(m) if k != "obs"), "copy: an attribute is not shared")
                    vars_same(m, before, kind)
            elif kind.startswith("roundtrip:"):
                for nm in ROUNDTRIP[kind.split(":", 1)[1]]:
                    op = make_native(nm)
                    before = dict(vars(op))
                    new = type(op)._unflatten(*op._flatten())
                    legacy_pow = nm == "Pow-class"          # Pow._unflatten goes through qp.pow, which returns the new class Pow2 (reported separately)
                    must(qp.equal(new, op) and (legacy_pow or (type(new) is type(op) and hash(new) == hash(op))), f"{nm}: round trip is not equal to the original")
                    if hasattr(op, "wires"):
                        must(new.wires == op.wires, f"{nm}: wires differ")
                    if hasattr(op, "operands"):
                        must([repr(o) for o in new.operands] == [repr(o) for o in op.operands], f"{nm}: operands differ or are reordered")
                    if isinstance(getattr(op, "hyperparameters", None), dict):
                        must(list(sorted(map(str, new.hyperparameters))) == list(sorted(map(str, op.hyperparameters))), f"{nm}: hyperparameter keys differ")
                        must(all(repr(new.hyperparameters[k]) == repr(op.hyperparameters[k]) for k in op.hyperparameters), f"{nm}: hyperparameters differ")
                    if hasattr(op, "data") and not hasattr(op, "return_type"):
                        must(len(new.data) == len(op.data) and all(np.allclose(x, y) for x, y in zip(new.data, op.data)), f"{nm}: data differ")
                    vars_same(op, before, nm)
            elif kind.startswith("bind:"):
                for nm in BIND[kind.split(":", 1)[1]]:
                    op = make_native(nm)
                    before = dict(vars(op))
                    old_data = [np.array(d, copy=True) for d in op.data]
                    hp_keys = list(op.hyperparameters)
                    new = [np.asarray(d) * 0.5 + 0.125 * (i + 1) for i, d in enumerate(op.data)]
                    b = qp.ops.functions.bind_new_parameters(op, new)
                    must(type(b) is type(op) and b is not op, f"{nm}: class changed or the input itself returned")
                    must(len(b.data) == len(new) and all(np.allclose(x, y) for x, y in zip(b.data, new)), f"{nm}: parameters of the result {b.data} are not the new ones {new}")
                    must(b.wires == op.wires, f"{nm}: wires changed")
                    if hasattr(op, "operands"):
                        must([type(o) for o in b.operands] == [type(o) for o in op.operands] and [o.wires for o in b.operands] == [o.wires for o in op.operands],
                             f"{nm}: operands changed")
                    hp_o = {k: v for k, v in op.hyperparameters.items() if not isinstance(v, (mod_operator(), list, tuple))}
                    must(all(repr(b.hyperparameters.get(k)) == repr(v) for k, v in hp_o.items()), f"{nm}: a hyperparameter changed")
                    must(all(np.array_equal(x, y) for x, y in zip(op.data, old_data)), f"{nm}: the input's parameters changed")
                    must(list(op.hyperparameters) == hp_keys, f"{nm}: the input's hyperparameters changed")
                    vars_same(op, before, nm)
        except Exception as ex:  # pylint: disable=broad-except
            bad.append(f"raised {type(ex).__name__}: {str(ex)[:120]}")
        return Verdict(bad)
    return run


def mod_operator():
    import pennylane as qp
    return qp.operation.Operator


ROUNDTRIP = {"Operator": ["AngleEmbedding", "Barrier", "Identity", "RX", "Rot", "Projector", "Snapshot"], "CompositeOp": ["prod(X, RY)", "prod3"], "Sum": ["sum(Z, RX)", "Hamiltonian-sum"],
             "Adjoint": ["Adjoint-class"], "Pow": ["Pow-class"], "SProd": ["s_prod(2.5, X)"], "Exp": ["exp(X, 0.3j)", "evolve(Z, 0.7)"],
             "Controlled": ["Controlled-class", "ctrl(RY)", "ctrl(ctrl(S))", "ctrl-work"], "MeasurementProcess": ["expval(Z)", "expval(sum)", "probs(wires)", "var(Hermitian)", "sample(X)", "counts()", "sample(mv)", "expval(eigvals)"]}
BIND = {"sprod": ["s_prod(2.5, X)", "s_prod(2.5, RX)"], "pow": ["Pow-class"], "pow2": ["pow(RX, 2.5)"], "controlled_sequence": ["ControlledSequence"], "prep_sel_prep": [],
        "controlled_op2": ["ctrl(RY)", "ctrl-work"], "conditional": ["cond(RX)"], "approx_time_evolution": ["ApproxTimeEvolution"], "qdrift": ["QDrift"],
        "commuting_evolution": ["CommutingEvolution"], "fermionic_double_excitation": ["FermionicDoubleExcitation"], "symbolic_op": ["Controlled-class"], "adjoint": ["Adjoint-class", "adjoint(RX)"],
        "scalar_symbolic_op": ["exp(RX-sum)"], "composite_op": ["prod3", "sum(Z, RX)", "prod(X, RY)"]}

NATIVE_TABLE = ["RX", "Rot", "CNOT", "CRX", "Toffoli", "MultiControlledX", "QubitUnitary", "PauliRot", "MultiRZ", "IsingXX", "PhaseShift", "U3",
                "Hadamard", "Identity", "GlobalPhase", "Hermitian", "Projector", "StatePrep", "BasisState", "adjoint(RX)", "pow(RX, 2.5)", "ctrl(RY)",
                "ctrl(ctrl(S))", "prod(X, RY)", "sum(Z, RX)", "s_prod(2.5, X)", "exp(X, 0.3j)", "evolve(Z, 0.7)", "LinearCombination", "Hamiltonian-sum",
                "DoubleExcitation", "Barrier", "Snapshot", "AmplitudeDamping", "DepolarizingChannel", "BitFlip",
                "QubitChannel", "TrotterProduct", "ApproxTimeEvolution", "AngleEmbedding", "expval(Z)", "expval(sum)", "probs(wires)", "var(Hermitian)",
                "sample(X)", "counts()", "prod3", "ctrl-work", "sample(mv)", "ControlledSequence", "QDrift", "CommutingEvolution",
                "FermionicDoubleExcitation", "s_prod(2.5, RX)", "exp(RX-sum)", "Adjoint-class", "Controlled-class", "expval(eigvals)"]


CANDIDATE_DEFECTS = [
    ("Pow-class", "Pow._unflatten", "round trip of a legacy Pow instance (Pow._unflatten / pytree) returns the new class Pow2 with a different hash"),
    ("cond(RX)", "Conditional", "Conditional._unflatten(*op._flatten()) and the pytree round trip raise TypeError (unexpected keyword 'wires')"),
    ("ControlledQubitUnitary", "ControlledQubitUnitary", "bind_new_parameters(ControlledQubitUnitary, op.data) raises TypeError; with one parameter it resets "
     "control_values and drops work_wires"),
]


def make_native(name):
    import numpy as np
    import pennylane as qp
    t = {
        "RX": lambda: qp.RX(0.3, 0), "Rot": lambda: qp.Rot(0.1, 0.2, 0.3, wires="a"), "CNOT": lambda: qp.CNOT([0, 1]), "CRX": lambda: qp.CRX(0.4, [0, 1]),
        "Toffoli": lambda: qp.Toffoli([0, 1, 2]), "MultiControlledX": lambda: qp.MultiControlledX(wires=[0, 1, 2], control_values=[1, 0]),
        "QubitUnitary": lambda: qp.QubitUnitary(np.array([[0, 1], [1, 0]], dtype=complex), 0), "PauliRot": lambda: qp.PauliRot(0.5, "XY", [0, 1]),
        "MultiRZ": lambda: qp.MultiRZ(0.2, [0, 1, 2]), "IsingXX": lambda: qp.IsingXX(0.3, [0, 1]), "PhaseShift": lambda: qp.PhaseShift(0.9, 1),
        "U3": lambda: qp.U3(0.1, 0.2, 0.3, 0), "Hadamard": lambda: qp.Hadamard(3), "Identity": lambda: qp.Identity([0, 1]),
        "GlobalPhase": lambda: qp.GlobalPhase(0.4), "Hermitian": lambda: qp.Hermitian(np.array([[1.0, 0.5], [0.5, -1.0]]), 0),
        "Projector": lambda: qp.Projector(np.array([0, 1]), [0, 1]), "StatePrep": lambda: qp.StatePrep(np.array([0.6, 0.8]), 0),
        "BasisState": lambda: qp.BasisState(np.array([1, 0]), [0, 1]), "adjoint(RX)": lambda: qp.adjoint(qp.RX(0.3, 0)),
        "pow(RX, 2.5)": lambda: qp.pow(qp.RX(0.3, 0), 2.5), "ctrl(RY)": lambda: qp.ctrl(qp.RY(0.2, 1), 0, control_values=[0]),
        "ctrl(ctrl(S))": lambda: qp.ctrl(qp.ctrl(qp.S(2), 1), 0), "prod(X, RY)": lambda: qp.prod(qp.X(0), qp.RY(0.4, 1)),
        "sum(Z, RX)": lambda: qp.sum(qp.Z(0), qp.RX(0.2, 1)), "s_prod(2.5, X)": lambda: qp.s_prod(2.5, qp.X(0)), "exp(X, 0.3j)": lambda: qp.exp(qp.X(0), 0.3j),
        "evolve(Z, 0.7)": lambda: qp.evolve(qp.Z(0), 0.7), "LinearCombination": lambda: qp.ops.LinearCombination([0.5, 1.5], [qp.X(0), qp.Z(1) @ qp.Y(0)]),
        "Hamiltonian-sum": lambda: 0.5 * qp.X(0) + 1.5 * (qp.Z(1) @ qp.Y(0)),
        "ControlledQubitUnitary": lambda: qp.ControlledQubitUnitary(np.array([[0, 1], [1, 0]], dtype=complex), wires=[0, 1]),
        "DoubleExcitation": lambda: qp.DoubleExcitation(0.3, [0, 1, 2, 3]), "Barrier": lambda: qp.Barrier([0, 1]), "Snapshot": lambda: qp.Snapshot("tag"),
        "AmplitudeDamping": lambda: qp.AmplitudeDamping(0.1, 0), "DepolarizingChannel": lambda: qp.DepolarizingChannel(0.2, 0), "BitFlip": lambda: qp.BitFlip(0.3, 1),
        "QubitChannel": lambda: qp.QubitChannel([np.sqrt(0.5) * np.eye(2), np.sqrt(0.5) * np.array([[0, 1], [1, 0]])], 0),
        "TrotterProduct": lambda: qp.TrotterProduct(0.5 * qp.X(0) + 0.3 * qp.Z(0), 0.7, n=2, order=2),
        "ApproxTimeEvolution": lambda: qp.ApproxTimeEvolution(0.5 * qp.X(0) + 0.3 * qp.Z(1), 0.7, 2),
        "AngleEmbedding": lambda: qp.AngleEmbedding(np.array([0.1, 0.2]), wires=[0, 1], rotation="Y"),
        "expval(Z)": lambda: qp.expval(qp.Z(0)), "expval(sum)": lambda: qp.expval(0.5 * qp.X(0) + qp.Z(1)), "probs(wires)": lambda: qp.probs(wires=[0, 1]),
        "var(Hermitian)": lambda: qp.var(qp.Hermitian(np.array([[1.0, 0.5], [0.5, -1.0]]), 0)), "sample(X)": lambda: qp.sample(qp.X(0)), "counts()": lambda: qp.counts(),
        "prod3": lambda: qp.prod(qp.RX(0.1, 0), qp.Rot(0.2, 0.3, 0.4, 1), qp.RY(0.5, 2)),
        "ctrl-work": lambda: qp.ctrl(qp.RY(0.2, 2), [0, 1], control_values=[1, 0], work_wires=[5], work_wire_type="zeroed"),
        "sample(mv)": lambda: qp.sample(qp.measure(0)), "ControlledSequence": lambda: qp.ControlledSequence(qp.RX(0.25, 3), control=[0, 1]),
        "cond(RX)": lambda: qp.ops.Conditional(qp.measure(0), qp.RX(0.3, 1)),
        "QDrift": lambda: qp.QDrift(0.5 * qp.X(0) + 0.3 * qp.Z(1), 0.7, n=3, seed=11),
        "CommutingEvolution": lambda: qp.CommutingEvolution(0.5 * qp.X(0) @ qp.Y(1) + 0.3 * qp.Y(0) @ qp.X(1), 0.7, frequencies=(2,)),
        "FermionicDoubleExcitation": lambda: qp.FermionicDoubleExcitation(0.3, wires1=[0, 1], wires2=[2, 3]),
        "s_prod(2.5, RX)": lambda: qp.s_prod(2.5, qp.RX(0.3, 0)), "exp(RX-sum)": lambda: qp.ops.op_math.Exp(qp.sum(qp.RX(0.1, 0), qp.Z(1)), 0.5j),
        "Controlled-class": lambda: qp.ops.op_math.Controlled(qp.RY(0.2, 2), [0, 1], control_values=[1, 0], work_wires=[5], work_wire_type="zeroed"),
        "expval(eigvals)": lambda: qp.measurements.ExpectationMP(eigvals=np.array([1.0, -1.0]), wires=[0]),
        "Adjoint-class": lambda: qp.ops.op_math.Adjoint(qp.RX(0.3, 0)), "Pow-class": lambda: qp.ops.op_math.Pow(qp.RX(0.3, 0), 2.5),
    }
    return t[name]()


def native_obligation(name):
    def fn():
        import pickle
        import numpy as np
        import pennylane as qp
        try:
            op = make_native(name)
        except Exception as ex:  # pylint: disable=broad-except
            return Outcome(DISCHARGED, "native-standin", f"skipped: cannot construct ({type(ex).__name__})", extra=dict(bounded=True))
        problems = []
        try:
            op_repr = repr(op)
        except Exception:  # pylint: disable=broad-except
            op_repr = name

        def arrays(x):
            out = []
            for d in getattr(x, "data", ()):
                if isinstance(d, np.ndarray):
                    out.append(d)
            for v in getattr(x, "hyperparameters", {}).values() if isinstance(getattr(x, "hyperparameters", None), dict) else []:
                if isinstance(v, np.ndarray):
                    out.append(v)
            return out

        def eq(a, b, what):
            try:
                if not qp.equal(a, b):
                    problems.append(f"{what}: qp.equal is False")
                elif hash(a) != hash(b):
                    problems.append(f"{what}: hash differs")
            except Exception as ex:  # pylint: disable=broad-except
                problems.append(f"{what}: comparison raised {type(ex).__name__}: {str(ex)[:80]}")
        for what, f in (("copy.copy", _copy.copy), ("copy.deepcopy", _copy.deepcopy), ("pickle", lambda x: pickle.loads(pickle.dumps(x))),
                        ("pytree", lambda x: qp.pytrees.unflatten(*qp.pytrees.flatten(x))), ("_flatten/_unflatten", lambda x: type(x)._unflatten(*x._flatten()))):
            try:
                c = f(op)
            except Exception as ex:  # pylint: disable=broad-except
                problems.append(f"{what} raised {type(ex).__name__}: {str(ex)[:100]}")
                continue
            if c is op:
                problems.append(f"{what} returned the same object")
            eq(op, c, what)
            if what in ("copy.deepcopy", "pickle"):
                hp_hyper = [(k, v) for k, v in getattr(op, "hyperparameters", {}).items() if isinstance(v, np.ndarray)] if hasattr(op, "hyperparameters") else []
                for k, v in hp_hyper:
                    if np.shares_memory(v, c.hyperparameters[k]):
                        problems.append(f"{what}: hyperparameter array `{k}` shares memory with the original")
        if hasattr(op, "data") and not name.startswith(("expval", "probs", "var", "sample", "counts")):
            new = [np.asarray(d) * 0.5 + 0.25 if np.asarray(d).dtype.kind == "f" else d for d in op.data]
            before = [np.array(d, copy=True) for d in op.data]
            try:
                b = qp.ops.functions.bind_new_parameters(op, new)
                if len(b.data) != len(new) or not all(np.allclose(x, y) for x, y in zip(b.data, new)):
                    problems.append(f"bind_new_parameters: data {b.data} != new parameters {new}")
                if type(b) is not type(op) or b.wires != op.wires:
                    problems.append("bind_new_parameters: class or wires changed")
                if not all(np.array_equal(x, y) for x, y in zip(op.data, before)):
                    problems.append("bind_new_parameters mutated its input")
                if not qp.equal(qp.ops.functions.bind_new_parameters(op, list(op.data)), op):
                    problems.append("bind_new_parameters(op, op.data) is not equal to op")
            except Exception as ex:  # pylint: disable=broad-except
                problems.append(f"bind_new_parameters raised {type(ex).__name__}: {str(ex)[:100]}")
        if problems:
            return Outcome(REFUTED, "native-standin", "; ".join(problems[:4]), witness=dict(operator=name, repr=op_repr),
                           replay=dict(confirmed=True, observed=problems, inputs=op_repr))
        return Outcome(DISCHARGED, "native-standin", "copy / deepcopy / pickle / pytree / _flatten / bind_new_parameters reproduce the operator",
                       extra=dict(bounded=True))
    return Obligation(f"{PID}/native:round trips/{name}", "bounded", fn, bounded=True, timeout=240, sample="real round trips compared with qp.equal and hash")


def pytree_nesting_obligation():
    """bounded: pytrees.flatten / unflatten on every nesting (depth <= 3) of lists / tuples / dicts / None / one operator with numbered leaves"""
    def fn():
        import itertools as itx
        import pennylane as qp
        from pennylane.pytrees import flatten, unflatten
        problems, count = [], [0]

        def shapes(depth):
            yield "leaf"
            yield "none"
            if depth == 0:
                return
            subs = list(shapes(depth - 1)) if depth > 1 else ["leaf", "none"]
            for k in (0, 1, 2):
                for combo in itx.product(subs, repeat=k):
                    for kind in ("list", "tuple", "dict"):
                        yield (kind, combo)
            yield ("op", ())

        def build(shape, ctr, expected):
            if shape == "leaf":
                ctr[0] += 1
                expected.append(float(ctr[0]))
                return float(ctr[0])
            if shape == "none":
                return None
            kind, combo = shape
            if kind == "op":
                a, b, c = (build("leaf", ctr, expected) for _ in range(3))
                return qp.Rot(a, b, c, wires=ctr[0])
            items = [build(x, ctr, expected) for x in combo]
            return items if kind == "list" else tuple(items) if kind == "tuple" else {f"k{i}": v for i, v in enumerate(items)}

        def same_tree(a, b):
            if type(a) is not type(b):
                return False
            if isinstance(a, (list, tuple)):
                return len(a) == len(b) and all(same_tree(x, y) for x, y in zip(a, b))
            if isinstance(a, dict):
                return list(a) == list(b) and all(same_tree(a[k], b[k]) for k in a)
            if isinstance(a, qp.operation.Operator):
                return qp.equal(a, b)
            return a == b
        for shape in shapes(3):
            count[0] += 1
            if count[0] > 1500:
                break
            expected = []
            x = build(shape, [0], expected)
            try:
                leaves, struct = flatten(x)
                if [l for l in leaves if isinstance(l, float)] != expected:          # the other leaves are the integer wire labels of the operator
                    problems.append(f"leaf order of {x!r}: {leaves} != left-to-right {expected}")
                y = unflatten(leaves, struct)
                if not same_tree(x, y):
                    problems.append(f"unflatten(*flatten(x)) != x for {x!r}: {y!r}")
                new = [(-l if isinstance(l, float) else l) for l in leaves]
                z = unflatten(new, struct)
                l2, s2 = flatten(z)
                if [(-l if isinstance(l, float) else l) for l in l2] != list(leaves) or repr(s2) != repr(struct):
                    problems.append(f"rebinding leaves of {x!r} moved a leaf or changed the structure")
            except Exception as ex:  # pylint: disable=broad-except
                problems.append(f"{x!r}: raised {type(ex).__name__}: {str(ex)[:80]}")
            if len(problems) > 3:
                break
        if problems:
            return Outcome(REFUTED, "native-standin", "; ".join(problems[:3]), witness=dict(example=problems[0]), replay=dict(confirmed=True, observed=problems[:3]))
        return Outcome(DISCHARGED, "native-standin", f"{count[0]} nestings round-trip, leaves left to right", extra=dict(bounded=True))
    return Obligation(f"{PID}/pytrees:flatten+unflatten/nestings of depth <= 3", "bounded", fn, bounded=True, timeout=240,
                      func=("pennylane/pytrees/pytrees.py", "flatten"), sample="lists / tuples / dicts / None / Rot with numbered leaves")
