"""C23 Compile pipelines compose transforms and route results correctly.

(A) Routing.  `CompilePipeline.__call_tapes`, `_batch_postprocessing`, `_apply_postprocessing_stack` (and the real
    `BoundTransform` accessors they go through) are executed from their AST with the tape transforms and the per-circuit
    post-processing functions UNINTERPRETED: stage k applied to its j-th input circuit returns `fanout[k][j]` fresh circuits and a
    post-processing function F_{k,j}.  Postcondition, taken from the property statement: the returned circuits are the circuits of
    the last stage in order, and the returned post-processing function applied to one symbolic result per final circuit equals
    the by-hand composition  res_{k-1}[j] = F_{k,j}(res_k[slice_j])  computed stage by stage from the LAST stage backwards,
    for every input circuit in input order.  Size-bounded in (number of stages, batch size, fan-out table), complete in results;
    fan-out 0 (dropped circuits) included.
(B) List API.  append / extend / + / radd / += / * / [i] / [slice] / insert / pop / remove / copy / == / markers are executed
    from their AST on pipelines of enumerated shapes (length, which elements are terminal / carry an expand transform / are
    equal) with symbolic marker levels, against the python-list model: view(p) = list of bound transforms (with the documented
    pairing of a transform with its expand transform); a marker at level v sits between elements v-1 and v.
"""
import itertools

import z3

from vf.common import Plan, Obligation, Outcome, DISCHARGED, REFUTED, UNDECIDED, FAULT
from vf.pyvc.engine import World, T, Int, Bool, Label, LabelSort, NoneT, Rec, PyList, Model, Unsupp, RaiseExc
from vf.pyvc.contract import FnContract, Case, obligations_for
from vf.pyvc import spec as S
from vf.pyvc.spec import And, Or, Not, Implies, If

CP = "pennylane/core/transforms/compile_pipeline.py"
TR = "pennylane/core/transforms/transform.py"

STUB_TRANSFORM = '''
class Transform:
    def __init__(self, tape_transform, **cfg):
        self.tape_transform = tape_transform
        self.pass_name = None
        self.expand_transform = None
        self.classical_cotransform = None
        self.is_informative = False
        self.is_final_transform = False
        self._use_argnum_in_expand = False
'''


class Fn(Model):
    """a raw tape transform / post-processing function: uninterpreted; equality is identity (as for python functions)"""

    def __init__(self, name, call=None):
        self.name, self._call = name, call
        self.__name__ = name

    def vf_call(self, interp, args, kwargs):
        if self._call is None:
            raise Unsupp(f"call of the uninterpreted function {self.name}")
        return self._call(interp, args, kwargs)

    def __repr__(self):
        return f"<fn {self.name}>"


def build(tier, seed):
    plan = Plan("C23", level="proof")
    plan.explanation = ("(A) __call_tapes + _batch_postprocessing + _apply_postprocessing_stack executed from the real AST with "
                        "uninterpreted tape transforms / post-processing functions for every enumerated fan-out table; the composed "
                        "post-processing applied to symbolic results equals the by-hand stage-by-stage composition (EUF). "
                        "(B) the list API executed on pipelines of enumerated shapes with symbolic marker levels against the "
                        "python list model. All VCs quantifier-free; counter-models replayed on real pipelines.")
    plan.trusted_base = ["vf/pyvc encoder (Python subset semantics, functools.partial, slice objects)", "z3 (QF_UFLIA)"]
    plan.assumptions = ["Transform objects are abstract records (tape_transform, expand_transform, is_final_transform, ...): inputs",
                        "tape transforms and post-processing functions are uninterpreted; a transform's fan-out is a function of "
                        "(stage, position) fixed per enumerated table"]
    plan.dropped = ["docstrings, annotations, overloads", "cotransform cache / classical cotransforms (cotransform_cache is None)",
                    "__str__/__repr__/_ipython_display_"]
    add_routing(plan, tier, seed)
    add_symbolic_batch(plan, tier, seed)
    add_list_api(plan, tier, seed)
    plan.unverified = ["Transform.__call__ dispatch on QNodes/devices/callables (__call_generic)", "cotransform cache and classical "
                       "cotransforms (argnums, classical jacobians)", "add_transform / set_classical_component", "program capture (jaxpr) path"]
    return plan


# ---------------------------------------------------------------------------------------------------------------------------
def mk_world():
    w = World(CP, classes={"CompilePipeline": {"_compile_pipeline": Int}, "ProtectedLevel": {},
                           "BoundTransform": (TR, {"_transform": Int})},
              functions=["_batch_postprocessing", "_apply_postprocessing_stack", "null_postprocessing"],
              stubs={"Transform": (STUB_TRANSFORM, {"tape_transform": Int}), "QuantumScript": ("class QuantumScript:\n    pass\n", {})},
              extra_builtins={"warnings.warn": lambda it, a, k: None})
    return w


def mk_transform(w, fn, final=False, expand=None, informative=False):
    return Rec(w.classes["Transform"], {"tape_transform": fn, "pass_name": None, "expand_transform": expand,
                                        "classical_cotransform": None, "is_informative": informative, "is_final_transform": final,
                                        "_use_argnum_in_expand": False})


def mk_bound(w, transform, args=(), kwargs=None):
    return Rec(w.classes["BoundTransform"], {"_transform": transform, "_args": tuple(args), "_kwargs": dict(kwargs or {}), "_use_argnum": False})


def mk_pipeline(w, elems, markers=None):
    return Rec(w.classes["CompilePipeline"], {"_compile_pipeline": PyList(list(elems)), "_markers": dict(markers or {}),
                                              "cotransform_cache": None})


# ---------------------------------------------------------------------------------------------------------------------------
def fanout_tables(tier):
    """(batch size B, [fan-out list per stage]) -- stage k's list has one entry per circuit entering stage k"""
    vals = (0, 1, 2)
    out = []
    for B in (1, 2):
        for f1 in itertools.product(vals, repeat=B):
            out.append((B, [list(f1)]))
            n1 = sum(f1)
            if n1 <= 3:
                for f2 in itertools.product(vals, repeat=n1):
                    out.append((B, [list(f1), list(f2)]))
    # batch of three with uneven fan-out, three stages
    out += [(3, [[2, 0, 1]]), (3, [[1, 1, 3]]), (3, [[2, 1, 0], [1, 2, 0]]), (3, [[0, 0, 0]]), (2, [[2, 1], [1, 0, 2], [2, 1, 1]]),
            (1, [[3], [1, 2, 0], [1, 1, 2]]), (2, [[1, 2], [0, 1, 1], [2, 0]]), (1, [[1], [1], [1]]), (3, [[1, 1, 1], [1, 1, 1]])]
    if tier != "thorough":
        keep = [t for i, t in enumerate(out) if len(t[1]) != 2 or t[0] == 1 or i % 3 == 0]
        out = keep
    # drop duplicates, keep order
    seen, res = set(), []
    for t in out:
        k = repr(t)
        if k not in seen:
            seen.add(k)
            res.append(t)
    return res


def add_routing(plan, tier, seed):
    w = mk_world()
    tables = fanout_tables(tier)
    plan.size_bounds.append(f"routing: {len(tables)} fan-out tables (1-3 stages, batches of 1-3 circuits, fan-out 0-3 per circuit); results symbolic")
    RES = z3.DeclareSort("Result")

    def mk_case(B, fans):
        label = f"batch{B}/fanout{fans}".replace(" ", "")
        K = len(fans)
        holder = {}

        def build_self(ctx, name):
            # post-processing function of stage k, circuit j: uninterpreted function of its slice of results
            posts = {}

            def post_fn(k, j, arity):
                f = z3.Function(f"F_{k}_{j}", *([RES] * arity), RES) if arity else z3.Const(f"F_{k}_{j}", RES)

                def call(interp, args, kwargs):
                    (res,) = args
                    items = list(res.items) if isinstance(res, PyList) else list(res)
                    if len(items) != arity:
                        # the function was handed the wrong number of results: a distinct (arbitrary) value per observed arity
                        g = z3.Function(f"F_{k}_{j}_wrong_arity_{len(items)}", *([RES] * len(items)), RES) if items else z3.Const(f"F_{k}_{j}_wrong_arity_0", RES)
                        return g(*items) if items else g
                    return f(*items) if arity else f
                fn = Fn(f"post_{k}_{j}", call)
                posts[(k, j)] = f
                return fn
            stage_tapes = {}

            def tape_fn(k):
                counter = {"j": 0}

                def call(interp, args, kwargs):
                    tape = args[0]
                    j = counter["j"]
                    counter["j"] += 1
                    n = fans[k][j]
                    new = tuple(z3.Const(ctx.fresh_name(f"tape_{k + 1}_{j}_{i}"), LabelSort) for i in range(n))
                    stage_tapes.setdefault(k, []).append((tape, new))
                    return (new, post_fn(k, j, n))
                return Fn(f"transform_{k}", call)
            elems = [mk_bound(w, mk_transform(w, tape_fn(k))) for k in range(K)]
            p = mk_pipeline(w, elems)
            ctx.ghost["posts"], ctx.ghost["stage_tapes"] = posts, stage_tapes
            return p

        def routing_post(o, r, n):
            if isinstance(r, dict) and "byhand" in r:                       # native replay
                return r["pipeline"] == r["byhand"] and r["pipeline2"] == r["byhand2"] and r["n_final"] == r["n_final_expected"]
            tapes_out, post = r
            n_final = sum(fans[-1])
            if len(tapes_out) != n_final:
                return False
            conj = []
            # the returned function is applied TWICE (to two different result batches): it must be re-usable, i.e. neither
            # application may consume or modify the stack of per-stage functions
            for rnd in ("a", "b"):
                res = [z3.Const(f"result_{rnd}_{i}", RES) for i in range(n_final)]
                got = post.vf_call(holder["case"].interp, [tuple(res)], {})
                got = list(got.items) if isinstance(got, PyList) else list(got)
                # by hand: from the last stage backwards
                cur = res
                for k in range(K - 1, -1, -1):
                    nxt, pos = [], 0
                    for j, c in enumerate(fans[k]):
                        f = z3.Function(f"F_{k}_{j}", *([RES] * c), RES) if c else z3.Const(f"F_{k}_{j}", RES)
                        nxt.append(f(*cur[pos:pos + c]) if c else f)
                        pos += c
                    cur = nxt
                if len(got) != len(cur) or len(cur) != B:
                    return False
                conj += [g == c for g, c in zip(got, cur)]
            return And(True, *conj)

        def axioms(o, value, n, env):
            return []

        def native_call(mod, a):
            return native_routing(B, fans)

        case = Case(label, {"self": T("build", build_self, gen=lambda rng: {"__opaque__": 1}),
                            "tapes": T("build", lambda ctx, name: tuple(z3.Const(ctx.fresh_name(f"tape_0_{i}"), LabelSort) for i in range(B)),
                                       gen=lambda rng: list(range(B)))},
                    ensures=routing_post, size_bounded=True, native_call=native_call, native_raw=True)
        holder["case"] = case
        return case

    cases = [mk_case(B, fans) for B, fans in tables]
    fc = FnContract(w, "CompilePipeline.__call_tapes", cases)
    for ob in obligations_for("C23", fc, tier):
        plan.add(ob)
    for q in ("CompilePipeline.__call_tapes", "_batch_postprocessing", "_apply_postprocessing_stack"):
        plan.fn_under_contract(CP, q)
    for q in ("BoundTransform.__iter__",):
        plan.fn_under_contract(TR, q)


def native_routing(B, fans):
    """replay on REAL transforms: stage k gives its j-th input circuit fans[k][j] circuits and an injective post-processing"""
    import pennylane as qp
    from pennylane.core.transforms.compile_pipeline import CompilePipeline
    K = len(fans)

    def make_stage(k):
        state = {"j": 0}

        def tape_transform(tape):
            j = state["j"]
            state["j"] += 1
            c = fans[k][j]
            new = [qp.tape.QuantumScript([qp.RX(1000.0 * (k + 1) + 10.0 * j + i, 0)], [qp.expval(qp.Z(0))]) for i in range(c)]

            def post(res, k=k, j=j, c=c):
                res = tuple(res)
                return ("F", k, j, res)
            return new, post
        return qp.transform(tape_transform), state
    stages = [make_stage(k) for k in range(K)]
    tapes = [qp.tape.QuantumScript([qp.RX(float(i), 0)], [qp.expval(qp.Z(0))]) for i in range(B)]
    pipe = CompilePipeline(*[t for t, _ in stages])
    out_tapes, post = pipe(tuple(tapes))
    n_final = sum(fans[-1])
    out = {"n_final": len(out_tapes), "n_final_expected": n_final}
    for tag, key_p, key_h in (("r", "pipeline", "byhand"), ("s", "pipeline2", "byhand2")):      # the function is used twice
        results = tuple((tag, i) for i in range(len(out_tapes)))
        try:
            got = tuple(post(results))
        except Exception as ex:  # pylint: disable=broad-except
            got = ("raised", type(ex).__name__)
        cur = [(tag, i) for i in range(n_final)]
        for k in range(K - 1, -1, -1):
            nxt, pos = [], 0
            for j, c in enumerate(fans[k]):
                nxt.append(("F", k, j, tuple(cur[pos:pos + c])))
                pos += c
            cur = nxt
        out[key_p], out[key_h] = got, tuple(cur)
    return out


# ---------------------------------------------------------------------------------------------------------------------------
def add_symbolic_batch(plan, tier, seed):
    """One stage, batch of SYMBOLIC size, SYMBOLIC fan-out per circuit (no size bound).

    * program obligation: the inner `for tape_idx, tape in enumerate(tapes)` loop of __call_tapes (cut from the real AST and run as a
      procedure over its free variables) maintains PART(slices, fns, execution_tapes, tapes, i) -- a snoc-defined predicate used
      only through instances of its defining equation at the terms the code builds;
    * lemmas (base + step; the induction itself is meta-level): PART(...) implies, for every k < i, that fns[k] is the k-th
      circuit's post-processing function, slices[k] is [stop of slice k-1, + len(new_tapes_k)) and the corresponding segment of
      execution_tapes is exactly new_tapes_k -- i.e. the slices are the contiguous ordered partition of the produced circuits;
    * program obligation on `_batch_postprocessing` for sequences of symbolic length: result[j] == fns[j](results[slices[j]]),
      ValueError exactly on a length mismatch."""
    import ast
    from vf.common import find_def
    from vf.pyvc.engine import SeqV, SeqT
    from vf.pyvc.contract import LoopSpec, lemma

    class InnerLoop(FnContract):
        PARAMS = ["self", "tapes", "argnums", "transform", "targs", "tkwargs", "cotransform", "bound_transform",
                  "execution_tapes", "fns", "slices", "classical_fns", "classical_jacobians", "start"]

        def node(self):
            _, fn = find_def(self.world.file, "CompilePipeline.__call_tapes")
            loops = [n for n in ast.walk(fn) if isinstance(n, ast.For) and "enumerate(tapes)" in ast.unparse(n.iter)]
            if len(loops) != 1:
                raise KeyError("__call_tapes: inner loop `for tape_idx, tape in enumerate(tapes)` not found")
            mod = ast.parse("def call_tapes__inner_loop(" + ", ".join(self.PARAMS) + "):\n    pass\n    return (execution_tapes, fns, slices, start)\n")
            f = mod.body[0]
            f.body = [loops[0], f.body[1]]
            f.body[1].lineno = f.body[1].end_lineno = loops[0].end_lineno + 1
            return f

    APPLY = z3.Function("apply_postprocessing", LabelSort, z3.SeqSort(LabelSort), LabelSort)
    w = mk_world()
    w.extra_builtins["call_value"] = lambda it, a, k: APPLY(a[0], a[1].term if isinstance(a[1], SeqV) else w.box(a[1], SeqT(Label)))
    TS = z3.SeqSort(LabelSort)
    NEW = z3.Function("new_tapes_of", LabelSort, TS)
    POST = z3.Function("postprocessing_of", LabelSort, LabelSort)

    class Tf(Model):
        def vf_call(self, interp, args, kwargs):
            return (SeqV(NEW(args[0]), Label, True), POST(args[0]))
    SL = T("slice")
    SLs = w.sort_of(SL)
    st_, sp_ = SLs.accessor(0, 0), SLs.accessor(0, 1)
    SLSEQ = z3.SeqSort(SLs)
    PART = z3.Function("partition_ok", SLSEQ, TS, TS, TS, z3.IntSort(), z3.BoolSort())

    def term(v, elem):
        return S.seqterm(w, v, elem)

    def part_unfold(sls, fns, et, tapes, i, s_, f_, X):
        return PART(z3.Concat(sls, z3.Unit(s_)), z3.Concat(fns, z3.Unit(f_)), z3.Concat(et, X), tapes, i + 1) == z3.And(
            PART(sls, fns, et, tapes, i), st_(s_) == z3.Length(et), sp_(s_) == z3.Length(et) + z3.Length(X), f_ == POST(tapes[i]),
            X == NEW(tapes[i]), z3.Length(sls) == i, z3.Length(fns) == i)

    def inv(v):
        et, fns, sls, tapes = term(v.execution_tapes, Label), term(v.fns, Label), term(v.slices, SL), v.tapes.term
        start = v.start if isinstance(v.start, z3.ExprRef) else z3.IntVal(v.start)
        return z3.And(PART(sls, fns, et, tapes, v._i0), start == z3.Length(et), z3.Length(fns) == v._i0, z3.Length(sls) == v._i0)

    def axioms(v):
        et, fns, sls, tapes = term(v.execution_tapes, Label), term(v.fns, Label), term(v.slices, SL), v.tapes.term
        out = [PART(z3.Empty(SLSEQ), z3.Empty(TS), z3.Empty(TS), tapes, 0)]

        def split(t):
            return t.children() if z3.is_app_of(t, z3.Z3_OP_SEQ_CONCAT) and len(t.children()) == 2 else None
        a, b, c = split(sls), split(fns), split(et)
        if a and b and c and z3.is_app_of(a[1], z3.Z3_OP_SEQ_UNIT) and z3.is_app_of(b[1], z3.Z3_OP_SEQ_UNIT):
            out.append(part_unfold(a[0], b[0], c[0], tapes, v._i0 - 1, a[1].arg(0), b[1].arg(0), c[1]))
        return out

    def loop_post(o, r, n):
        et, fns, sls, start = r
        start = start if isinstance(start, z3.ExprRef) else z3.IntVal(start)
        return z3.And(PART(term(sls, SL), term(fns, Label), term(et, Label), o.tapes.term, z3.Length(o.tapes.term)), start == z3.Length(term(et, Label)))
    empty = lambda: T("build", lambda ctx, nm: PyList([]), gen=lambda rng: [])
    case = Case("one stage / symbolic batch size / symbolic fan-out",
                {"self": T("build", lambda ctx, nm: mk_pipeline(w, []), gen=lambda rng: None), "tapes": SeqT(Label, tuple=True), "argnums": NoneT,
                 "transform": T("const", Tf()), "targs": T("const", ()), "tkwargs": T("const", {}), "cotransform": NoneT, "bound_transform": NoneT,
                 "execution_tapes": empty(), "fns": empty(), "slices": empty(), "classical_fns": empty(), "classical_jacobians": empty(),
                 "start": T("const", 0)},
                ensures=loop_post, native_call=lambda mod, a: {"native": True}, native_raw=True,
                loops={0: LoopSpec(inv=inv, axioms=axioms, types={"execution_tapes": SeqT(Label), "fns": SeqT(Label), "slices": SeqT(SL),
                                                                  "classical_jacobians": SeqT(NoneT), "classical_fns": SeqT(Label), "start": Int})})
    post0 = case.ensures
    case.ensures = lambda o, r, n: True if isinstance(r, dict) and r.get("native") else post0(o, r, n)     # no native reading of the fragment
    fc = InnerLoop(w, "CompilePipeline.__call_tapes", [case])
    for ob in obligations_for("C23", fc, tier):
        ob.name = "C23/compile_pipeline:CompilePipeline.__call_tapes/inner-loop/slices-partition-the-produced-circuits[symbolic batch]"
        plan.add(ob)

    # ---- lemmas: what PART means (induction on i: base + step) ---------------------------------------------------------------------------
    sls, fns, et, tapes, X = z3.Const("sls", SLSEQ), z3.Const("fns", TS), z3.Const("et", TS), z3.Const("tapes", TS), z3.Const("X", TS)
    s_, f_, i, k = z3.Const("s", SLs), z3.Const("f", LabelSort), z3.Int("i"), z3.Int("k")

    def facts(sls, fns, et, tapes, k):
        return z3.And(fns[k] == POST(tapes[k]), 0 <= st_(sls[k]), sp_(sls[k]) - st_(sls[k]) == z3.Length(NEW(tapes[k])), sp_(sls[k]) <= z3.Length(et),
                      z3.Extract(et, st_(sls[k]), sp_(sls[k]) - st_(sls[k])) == NEW(tapes[k]), st_(sls[k]) == z3.If(k == 0, 0, sp_(sls[k - 1])))

    def last(sls, et, i):
        return z3.If(i > 0, sp_(sls[i - 1]) == z3.Length(et), z3.Length(et) == 0)
    sls2, fns2, et2 = z3.Concat(sls, z3.Unit(s_)), z3.Concat(fns, z3.Unit(f_)), z3.Concat(et, X)
    hyp = [part_unfold(sls, fns, et, tapes, i, s_, f_, X), PART(sls2, fns2, et2, tapes, i + 1),
           z3.Implies(z3.And(0 <= k, k < i), facts(sls, fns, et, tapes, k)), last(sls, et, i), i >= 0]
    vs = [sls, fns, et, tapes, X, s_, f_, i, k]
    plan.add(lemma("C23", "partition/base: PART at i=0 means no circuits produced", vs, last(z3.Empty(SLSEQ), z3.Empty(TS), z3.IntVal(0)),
                   sample="induction base of 'PART => slices are the contiguous ordered partition'"))
    # two facts about finite sequences, proved on their own and then used as INSTANCES in the step lemma (keeps that VC small)
    A_, B_, a_, l_ = z3.Const("A", TS), z3.Const("B", TS), z3.Int("a"), z3.Int("l")

    def extract_of_concat(E, Y, a, l):
        return z3.Implies(z3.And(0 <= a, 0 <= l, a + l <= z3.Length(E)), z3.Extract(z3.Concat(E, Y), a, l) == z3.Extract(E, a, l))

    def nth_of_concat(P_, Q_, j):
        return z3.Implies(z3.And(0 <= j, j < z3.Length(P_)), z3.Concat(P_, Q_)[j] == P_[j])
    plan.add(lemma("C23", "seq/extract-of-concat", [A_, B_, a_, l_], extract_of_concat(A_, B_, a_, l_), timeout_ms=60000))
    plan.add(lemma("C23", "seq/nth-of-concat", [A_, B_, k], nth_of_concat(A_, B_, k), timeout_ms=60000))
    SA, SB = z3.Const("SA", SLSEQ), z3.Const("SB", SLSEQ)
    plan.add(lemma("C23", "seq/nth-of-concat[slices]", [SA, SB, k], nth_of_concat(SA, SB, k), timeout_ms=60000))
    inst = [nth_of_concat(sls, z3.Unit(s_), k), nth_of_concat(sls, z3.Unit(s_), k - 1), nth_of_concat(fns, z3.Unit(f_), k),
            extract_of_concat(et, X, st_(sls[k]), sp_(sls[k]) - st_(sls[k]))]
    plan.add(lemma("C23", "partition/step: earlier slices keep their meaning when a circuit's block is appended", vs,
                   z3.Implies(z3.And(0 <= k, k < i), facts(sls2, fns2, et2, tapes, k)), assumptions=hyp + inst, timeout_ms=120000))
    plan.add(lemma("C23", "partition/step: the new slice is exactly the appended block", vs,
                   z3.Implies(k == i, facts(sls2, fns2, et2, tapes, k)), assumptions=hyp, timeout_ms=60000))
    plan.add(lemma("C23", "partition/step: the last slice ends at the number of produced circuits", vs, last(sls2, et2, i + 1), assumptions=hyp,
                   timeout_ms=60000))

    # (`_batch_postprocessing` is a one-line comprehension `fn(results[sl]) for fn, sl in zip(fns, slices, strict=True)`; its
    #  quantified restatement for symbolic lengths is left to the size-bounded routing cases, where it is executed from the AST)
    plan.trusted_base.append("induction over the batch (meta-level) for the PART lemma pair; z3 sequence theory")
    plan.assumptions.append("symbolic-batch obligations: a tape transform is a function of the circuit (NEW, POST uninterpreted); cotransform cache absent")


# ---------------------------------------------------------------------------------------------------------------------------
def add_list_api(plan, tier, seed):
    """(B) list API against the python list model (see module docstring)"""
    w = mk_world()
    PIPE, BT, TRF = w.classes["CompilePipeline"], w.classes["BoundTransform"], w.classes["Transform"]

    # ---- pipeline shapes: tokens -> elements ------------------------------------------------------------------------------------
    #  "a","b","c" : plain transforms (distinct functions)      "a'" : another BoundTransform of function a with the same arguments
    #  "a~"        : function a bound with different (symbolic) arguments
    #  "Xe"        : expand transform X followed by transform e that carries X as its expand_transform (not terminal)
    #  "f"         : terminal transform                          "Yg" : terminal transform g with expand transform Y
    SHAPES = [[], ["a"], ["a", "b"], ["a", "a'"], ["a", "a~"], ["Xe"], ["a", "Xe"], ["Xe", "a"], ["a", "f"], ["a", "Yg"], ["a", "b", "c"],
              ["a", "Xe", "a'"]]
    MARKERS = [(), ("m",), ("m", "n")]
    if tier != "thorough":
        SHAPES_Q = [[], ["a"], ["a", "b"], ["a", "a'"], ["Xe", "a"], ["a", "Xe"], ["a", "f"], ["a", "Yg"], ["a", "b", "c"], ["a", "Xe", "a'"], ["a", "a~"]]
    else:
        SHAPES_Q = SHAPES
    plan.size_bounds.append(f"list API: pipeline shapes {SHAPES_Q} (a/b/c plain, a' equal element, a~ same transform other arguments, Xe / Yg "
                            "transform with expand transform, f / g terminal) x marker sets (), (m), (m, n) with symbolic levels")

    class Build:
        """constructs the symbolic elements of one shape in a fresh naming context (one per case instance)"""

        def __init__(self, ctx=None):
            self.fns = {}
            self.ctx = ctx

        def fn(self, name):
            if name not in self.fns:
                self.fns[name] = Fn(name)
            return self.fns[name]

        def args(self, tag):
            if tag is None:
                return ()
            return (z3.Const(self.ctx.fresh_name(f"arg_{tag}") if self.ctx else f"arg_{tag}", LabelSort),)

        def elements(self, tokens):
            out = []
            for tok in tokens:
                if len(tok) == 2 and tok[0].isupper():
                    x, e = tok[0], tok[1]
                    final = e in "fgkl"
                    out.append(mk_bound(w, mk_transform(w, self.fn(x))))
                    out.append(mk_bound(w, mk_transform(w, self.fn(e), final=final, expand=self.fn(x))))
                elif tok.endswith("~"):
                    out.append(mk_bound(w, mk_transform(w, self.fn(tok[0])), args=self.args(tok)))
                else:
                    base = tok[0]
                    out.append(mk_bound(w, mk_transform(w, self.fn(base), final=base in "fgkl")))
            return out

    def pipe_t(tokens, marker_names, tag="self"):
        def mk(ctx, name):
            b = ctx.ghost.setdefault("build", Build(ctx))
            els = b.elements(tokens)
            mk_ = {}
            for m in marker_names:
                lv = z3.Int(ctx.fresh_name(f"{tag}.level_{m}"))
                ctx.assume(z3.And(lv >= 0, lv <= len(els)))
                mk_[m] = lv
            return mk_pipeline(w, els, mk_)
        return T("build", mk, gen=lambda rng: {"_markers": {m: rng.randint(0, n_elems(tokens)) for m in marker_names}},
                 tokens=list(tokens), marker_names=tuple(marker_names))

    def n_elems(tokens):
        return sum(2 if (len(t) == 2 and t[0].isupper()) else 1 for t in tokens)

    def elem_t(token):
        """a single BoundTransform (token as above, without the stored expand element) / raw Transform ("T:<token>")"""
        raw = token.startswith("T:")
        tok = token[2:] if raw else token

        def mk(ctx, name):
            b = ctx.ghost.setdefault("build", Build(ctx))
            el = b.elements([tok])[-1]
            return el.f["_transform"] if raw else el
        return T("build", mk, gen=lambda rng: {"token": token}, token=token)

    # ---- views -------------------------------------------------------------------------------------------------------------------
    def sym(x):
        return isinstance(x, Rec)

    def view(p):
        return list(p.f["_compile_pipeline"].items) if sym(p) else list(p._compile_pipeline)

    def marks(p):
        return dict(p.f["_markers"]) if sym(p) else dict(p._markers)

    def tfn(el):
        """raw function of a bound transform"""
        return el.f["_transform"].f["tape_transform"] if sym(el) else el.tape_transform

    def targs(el):
        return tuple(el.f["_args"]) if sym(el) else tuple(el.args)

    def expand_fn(el):
        return el.f["_transform"].f["expand_transform"] if sym(el) else el._transform.expand_transform      # pylint: disable=protected-access

    def is_final(el):
        return el.f["_transform"].f["is_final_transform"] if sym(el) else el.is_final_transform

    def has_final(els):
        return any(is_final(e) for e in els)

    def eq(a, b):
        r = a == b
        return r if isinstance(r, (bool, z3.ExprRef)) else bool(r)

    def same(a, b):
        return S.same_object(a, b)

    def is_bound_of(el, fn, args):
        """el is a BoundTransform of the raw function fn with the given arguments"""
        if sym(el) != isinstance(fn, Model) or el is None:
            return False
        if sym(el):
            return And(el.cls is BT, tfn(el) is fn, len(targs(el)) == len(args), *[eq(x, y) for x, y in zip(targs(el), args)])
        return type(el).__name__ == "BoundTransform" and el.tape_transform is fn and tuple(el.args) == tuple(args)

    def bt_equal(a, b):
        """BoundTransform.__eq__ as a spec: same function, same arguments, same flags"""
        if tfn(a) is not tfn(b) or len(targs(a)) != len(targs(b)) or bool(is_final(a)) != bool(is_final(b)):
            return False
        return And(True, *[eq(x, y) for x, y in zip(targs(a), targs(b))])

    def expected_new(t):
        """elements that adding the (bound) transform t contributes: [its expand transform bound with the same arguments,] t"""
        out = []
        if expand_fn(t) is not None:
            out.append(("new", expand_fn(t), targs(t)))
        out.append(("same", t))
        return out

    def match_list(got, want):
        """got: list of elements; want: list of ('same', element) / ('new', fn, args) / ('wrap', transform)"""
        if len(got) != len(want):
            return False
        conj = []
        for g, wnt in zip(got, want):
            if wnt[0] == "same":
                conj.append(same(g, wnt[1]))
            elif wnt[0] == "new":
                conj.append(is_bound_of(g, wnt[1], wnt[2]))
            else:                                   # a raw Transform wrapped into a fresh BoundTransform without arguments
                tr = wnt[1]
                conj.append(And((g.f["_transform"] is tr or same(g.f["_transform"], tr)) if sym(g) else g._transform is tr, len(targs(g)) == 0))   # pylint: disable=protected-access
        return And(True, *conj)

    def marks_eq(got, want):
        """want: label -> level or (level_a, level_b) when either side of an inserted block is acceptable"""
        if set(got) != set(want):
            return False
        conj = []
        for k, lv in want.items():
            if isinstance(lv, tuple):
                conj.append(Or(*[eq(got[k], x) for x in lv]))
            else:
                conj.append(eq(got[k], lv))
        return And(True, *conj)

    def marks_valid(p):
        n = len(view(p))
        return And(True, *[And(lv >= 0, lv <= n) for lv in marks(p).values()])

    def unchanged(o, n):
        return And(match_list(view(n), [("same", e) for e in view(o)]), marks_eq(marks(n), marks(o)))

    def shift_after_removal(level, removed):
        """list model: a marker keeps its surviving neighbours -- its level drops by the number of removed positions below it"""
        lv = level
        for r in removed:
            lv = lv - S.If(r < level, 1, 0) if isinstance(level, z3.ExprRef) else lv - (1 if r < level else 0)
        return lv

    def as_added(x):
        """what `x` contributes when added to a pipeline: (expected elements, markers with levels relative to x's start, finals?)"""
        if sym(x):
            if x.cls is PIPE:
                return [("same", e) for e in view(x)], marks(x), has_final(view(x))
            if x.cls is BT:
                return expected_new(x), {}, bool(is_final(x))
            tr = x                                      # raw Transform
            exp = [("new", tr.f["expand_transform"], ())] if tr.f["expand_transform"] is not None else []
            return exp + [("wrap", tr)], {}, bool(tr.f["is_final_transform"])
        nm = type(x).__name__
        if nm == "CompilePipeline":
            return [("same", e) for e in view(x)], marks(x), has_final(view(x))
        if nm == "BoundTransform":
            return expected_new(x), {}, bool(x.is_final_transform)
        exp = [("new", x.expand_transform, ())] if x.expand_transform is not None else []
        return exp + [("wrap", x)], {}, bool(x.is_final_transform)

    contracts = []

    def add(qual, case):
        case.native_raw = True
        case.native_call = make_native(qual, case)
        post = case.ensures
        case.ensures = (lambda o, r, n_, post=post: r["ok"] if isinstance(r, dict) and r.get("native") else post(o, r, n_))
        contracts.append(FnContract(w, qual, [case]))

    def make_native(qual, case):
        """replay on REAL objects: build the pipeline / operands of this case from the counter-model, snapshot the pre-state, run the
        real method and evaluate the SAME postcondition / allowed-exception clauses on the real objects"""
        meth = qual.split(".")[1]
        post, raises, must_return = case.ensures, dict(case.raises), case.must_return
        exc_post = getattr(case, "exc_ensures", None)
        requires = case.requires

        def call(mod, a):
            from pennylane.core.transforms.transform import BoundTransform, Transform
            CPcls = mod.CompilePipeline
            fns = {}

            def fn(name):
                if name not in fns:
                    def f(tape, *args, **kwargs):
                        return (tape,), (lambda res: res[0])
                    f.__name__ = f.__qualname__ = name
                    fns[name] = f
                return fns[name]

            def elements(tokens):
                out = []
                for tok in tokens:
                    if len(tok) == 2 and tok[0].isupper():
                        x, e = tok[0], tok[1]
                        out.append(BoundTransform(Transform(fn(x))))
                        out.append(BoundTransform(Transform(fn(e), expand_transform=fn(x), final_transform=e in "fgkl")))
                    elif tok.endswith("~"):
                        out.append(BoundTransform(Transform(fn(tok[0])), args=("other-arguments",)))
                    else:
                        out.append(BoundTransform(Transform(fn(tok[0]), final_transform=tok[0] in "fgkl")))
                return out

            def snap(v):
                if isinstance(v, CPcls):
                    q = CPcls(list(v._compile_pipeline))                     # pylint: disable=protected-access
                    q._markers, q.cotransform_cache = dict(v._markers), v.cotransform_cache
                    return q
                return v
            real = {}
            for pname, t in case.params.items():
                if t.kind == "build" and "tokens" in t.kw:
                    pp = CPcls(elements(t.kw["tokens"]))
                    lv = (a.get(pname) or {}).get("_markers", {}) if isinstance(a.get(pname), dict) else {}
                    n_el = len(pp._compile_pipeline)
                    pp._markers = {m: min(max(int(lv.get(m, 0)), 0), n_el) if isinstance(lv.get(m, 0), int) else 0 for m in t.kw["marker_names"]}
                    real[pname] = pp
                elif t.kind == "build" and "token" in t.kw:
                    tok = t.kw["token"]
                    el = elements([tok[2:] if tok.startswith("T:") else tok])[-1]
                    real[pname] = el._transform if tok.startswith("T:") else el          # pylint: disable=protected-access
                elif t.kind == "const":
                    real[pname] = t.args[0]
                elif t.kind == "none":
                    real[pname] = None
                else:
                    real[pname] = a.get(pname)

            class NSx:
                def __init__(self, d):
                    self.__dict__.update(d)
            pre = NSx({k: snap(v) for k, v in real.items()})
            if requires is not None and not S.truth(requires(NSx(real))):
                return {"native": True, "ok": True, "observed": "input outside the precondition"}
            try:
                r = getattr(real["self"], meth)(*[real[p_] for p_ in case.params if p_ != "self"])
            except Exception as ex:  # pylint: disable=broad-except
                name = type(ex).__name__
                ok = name in raises and S.truth(raises[name](pre))
                if ok and must_return is not None and S.truth(must_return(pre)):
                    ok = False
                if ok and exc_post is not None:
                    ok = S.truth(exc_post(name, pre, NSx(real)))
                return {"native": True, "ok": bool(ok), "observed": f"raised {name}: {ex}", "markers_after": dict(real["self"]._markers),
                        "pipeline_after": [getattr(t_.tape_transform, "__name__", "?") for t_ in real["self"]._compile_pipeline]}
            ok = S.truth(post(pre, r, NSx(real)))
            return {"native": True, "ok": bool(ok), "observed": repr(r)[:200], "markers_before": dict(pre.self._markers),
                    "markers_after": dict(real["self"]._markers), "result_markers": dict(r._markers) if isinstance(r, CPcls) else None,
                    "pipeline_after": [getattr(t_.tape_transform, "__name__", "?") for t_ in real["self"]._compile_pipeline]}
        return call

    EXC = ("TransformError", "ValueError", "TypeError", "IndexError")

    for tokens in SHAPES_Q:
        n = n_elems(tokens)
        for mk_names in MARKERS:
            if len(mk_names) == 2 and (n == 0 or (tier != "thorough" and n > 2)):
                continue
            tag = f"[{','.join(tokens)}]/markers{list(mk_names)}".replace(" ", "").replace("'", "")
            base = {"self": pipe_t(tokens, mk_names)}

            # ---- reading -----------------------------------------------------------------------------------------------------
            add("CompilePipeline.__len__", Case(tag, dict(base), ensures=lambda o, r, n_: And(eq(r, len(view(o.self))), unchanged(o.self, n_.self)), size_bounded=True))
            add("CompilePipeline.__getitem__", Case(f"{tag}/int", dict(base, idx=Int),
                ensures=lambda o, r, n_: And(*[Implies(Or(o.idx == k, o.idx == k - len(view(o.self))), same(r, e)) for k, e in enumerate(view(o.self))], unchanged(o.self, n_.self)),
                raises={"IndexError": lambda o: Or(o.idx >= len(view(o.self)), o.idx < -len(view(o.self)))},
                must_return=lambda o: And(o.idx < len(view(o.self)), o.idx >= -len(view(o.self))), size_bounded=True))
            add("CompilePipeline.__copy__", Case(tag, dict(base),
                ensures=lambda o, r, n_: And(match_list(view(r), [("same", e) for e in view(o.self)]), marks_eq(marks(r), marks(o.self)),
                                             unchanged(o.self, n_.self), fresh_containers(r, n_.self)), size_bounded=True))

            # ---- markers ---------------------------------------------------------------------------------------------------------
            def addm_post(o, r, n_):
                lv = len(view(o.self)) if o.level is None else o.level
                return And(match_list(view(n_.self), [("same", e) for e in view(o.self)]), marks_eq(marks(n_.self), dict(marks(o.self), new=lv)), marks_valid(n_.self))
            add("CompilePipeline.add_marker", Case(f"{tag}/at-level", dict(base, label=T("const", "new"), level=Int), ensures=addm_post,
                raises={"ValueError": lambda o: Or(o.level < 0, o.level > len(view(o.self)))},
                must_return=lambda o: And(o.level >= 0, o.level <= len(view(o.self))), size_bounded=True))
            add("CompilePipeline.add_marker", Case(f"{tag}/at-end", dict(base, label=T("const", "new"), level=NoneT), ensures=addm_post, size_bounded=True))
            if mk_names:
                add("CompilePipeline.add_marker", Case(f"{tag}/duplicate-label", dict(base, label=T("const", mk_names[0]), level=NoneT),
                    ensures=lambda o, r, n_: False, raises={"ValueError": lambda o: True}, size_bounded=True))
                add("CompilePipeline.remove_marker", Case(tag, dict(base, label=T("const", mk_names[0])),
                    ensures=lambda o, r, n_, m0=mk_names[0]: And(match_list(view(n_.self), [("same", e) for e in view(o.self)]),
                                                              marks_eq(marks(n_.self), {k: v for k, v in marks(o.self).items() if k != m0})), size_bounded=True))
            add("CompilePipeline.remove_marker", Case(f"{tag}/unknown-label", dict(base, label=T("const", "nope")), ensures=lambda o, r, n_: False,
                raises={"ValueError": lambda o: True}, size_bounded=True))

            # ---- append / insert / + / += / radd with a single transform -------------------------------------------------------------
            for tok in ("d", "Zh", "T:d", "T:Zh", "k", "Wl"):           # plain, with expand, raw Transform, terminal k, terminal with expand l
                final_tok = tok[-1] in "kl"

                def one_elems(x):
                    return as_added(x)[0]

                def app_post(o, r, n_):
                    new, _, _ = as_added(o.transform)
                    return And(match_list(view(n_.self), [("same", e) for e in view(o.self)] + new), marks_eq(marks(n_.self), marks(o.self)), marks_valid(n_.self))
                clash = (lambda o, ft=final_tok: ft and has_final(view(o.self)))
                add("CompilePipeline.append", Case(f"{tag}/{tok}", dict(base, transform=elem_t(tok.replace("k", "f").replace("l", "g") if False else tok)),
                    ensures=app_post, raises={"TransformError": lambda o, c=clash: c(o)}, must_return=lambda o, c=clash: not c(o), size_bounded=True))

            if len(mk_names) == 2:
                continue
            L = n
            old_marks_shift = None

            def norm_pos(idx, L_):
                """where list.insert(idx, x) puts x in a list of length L_"""
                if isinstance(idx, z3.ExprRef):
                    return z3.If(idx < 0, z3.If(idx + L_ < 0, z3.IntVal(0), idx + L_), z3.If(idx > L_, z3.IntVal(L_), idx))
                return max(idx + L_, 0) if idx < 0 else min(idx, L_)

            # ---- insert --------------------------------------------------------------------------------------------------------
            for tok in ("d", "Zh", "T:d", "k"):
                final_tok = tok[-1] in "kl"

                def ins_post(o, r, n_):
                    old = view(o.self)
                    new, _, _ = as_added(o.transform)
                    sh = len(new)
                    pos = norm_pos(o.index, len(old))
                    conj = []
                    for q in range(len(old) + 1):
                        want = [("same", e) for e in old[:q]] + new + [("same", e) for e in old[q:]]
                        conj.append(Implies(eq(pos, q), match_list(view(n_.self), want)))
                    got = marks(n_.self)
                    if set(got) != set(marks(o.self)):
                        return False
                    for k_, v in marks(o.self).items():
                        # the marker keeps its neighbours: above the insertion point it moves by the number of inserted elements,
                        # AT the insertion point it may end up on either side of the inserted block (never inside it)
                        conj += [Implies(v > pos, eq(got[k_], v + sh)), Implies(v < pos, eq(got[k_], v)),
                                 Implies(eq(v, pos), Or(eq(got[k_], v), eq(got[k_], v + sh)))]
                    conj.append(marks_valid(n_.self))
                    return And(True, *conj)
                term_clash = (lambda o, ft=final_tok: ft and len(view(o.self)) > 0)
                add("CompilePipeline.insert", Case(f"{tag}/{tok}", dict(base, index=Int, transform=elem_t(tok)), ensures=ins_post,
                    raises={"TransformError": lambda o, c=term_clash: c(o)}, must_return=lambda o, c=term_clash: not c(o),
                    exc_ensures=lambda name, o, n_: unchanged(o.self, n_.self), size_bounded=True))

            # ---- pop ---------------------------------------------------------------------------------------------------------------
            def paired(old, i):
                """element i carries an expand transform and element i-1 is that expand transform"""
                if i <= 0 or expand_fn(old[i]) is None:
                    return False
                prev = old[i - 1]
                if tfn(prev) is not expand_fn(old[i]) or len(targs(prev)) != len(targs(old[i])) or bool(is_final(prev)):
                    return False
                return And(True, *[eq(x, y) for x, y in zip(targs(prev), targs(old[i]))])

            def after_removal(o_self, n_self, removed):
                old = view(o_self)
                want = [("same", e) for j, e in enumerate(old) if j not in removed]
                mk_want = {k_: shift_after_removal(v, sorted(removed)) for k_, v in marks(o_self).items()}
                return And(match_list(view(n_self), want), marks_eq(marks(n_self), mk_want), marks_valid(n_self))

            def pop_post(o, r, n_):
                old = view(o.self)
                conj = []
                for i, e in enumerate(old):
                    hit = Or(eq(o.index, i), eq(o.index, i - len(old)))
                    pr = paired(old, i)
                    removed = {i - 1, i} if pr is not False and S.truth(pr) else {i}
                    conj.append(Implies(hit, And(same(r, e), after_removal(o.self, n_.self, removed))))
                return And(True, *conj)
            if L > 0:
                add("CompilePipeline.pop", Case(tag, dict(base, index=Int), ensures=pop_post,
                    raises={"IndexError": lambda o: Or(o.index >= len(view(o.self)), o.index < -len(view(o.self)))},
                    must_return=lambda o: And(o.index < len(view(o.self)), o.index >= -len(view(o.self))),
                    exc_ensures=lambda name, o, n_: unchanged(o.self, n_.self), size_bounded=True))

            # ---- remove --------------------------------------------------------------------------------------------------------------
            for tok in ("a", "T:a", "e", "z"):
                if tok[-1] not in "".join(tokens) and tok != "z":
                    continue

                def rm_post(o, r, n_, tok=tok):
                    old = view(o.self)
                    obj = o.obj
                    removed = set()
                    for i, e in enumerate(old):
                        if (sym(obj) and obj.cls is TRF) or (not sym(obj) and type(obj).__name__ == "Transform"):
                            hit = (tfn(e) is (obj.f["tape_transform"] if sym(obj) else obj.tape_transform)) and \
                                  ((e.f["_transform"] is obj or same(e.f["_transform"], obj)) if sym(e) else e._transform is obj)   # pylint: disable=protected-access
                        else:
                            hit = bt_equal(e, obj)
                            hit = hit if isinstance(hit, bool) else S.truth(hit)
                        if hit:
                            removed.add(i)
                            pr = paired(old, i)
                            if pr is not False and S.truth(pr):
                                removed.add(i - 1)
                    return after_removal(o.self, n_.self, removed)
                add("CompilePipeline.remove", Case(f"{tag}/{tok}", dict(base, obj=elem_t(tok if tok.startswith("T:") else tok)), ensures=rm_post, size_bounded=True))

            # ---- + / += / radd / extend -------------------------------------------------------------------------------------------------
            OTHERS = [("bt:d", elem_t("d")), ("bt:Zh", elem_t("Zh")), ("T:d", elem_t("T:d")), ("bt:k", elem_t("k")),
                      ("pipe[]", pipe_t([], (), "other")), ("pipe[d]+x", pipe_t(["d"], ("x",), "other")), ("pipe[d,k]+x", pipe_t(["d", "k"], ("x",), "other"))]
            for olabel, ot in OTHERS:
                def add_want(o):
                    new, omarks, ofinal = as_added(o.other)
                    off = len(view(o.self))
                    want = [("same", e) for e in view(o.self)] + new
                    mk_want = dict(marks(o.self))
                    for k_, v in omarks.items():
                        mk_want[k_] = v + off
                    return want, mk_want, ofinal
                both_final = (lambda o: has_final(view(o.self)) and as_added(o.other)[2])

                def other_unchanged(o, n_):
                    if (sym(o.other) and o.other.cls is PIPE) or (not sym(o.other) and type(o.other).__name__ == "CompilePipeline"):
                        return unchanged(o.other, n_.other)
                    return True

                def plus_post(o, r, n_):
                    want, mk_want, _ = add_want(o)
                    return And(match_list(view(r), want), marks_eq(marks(r), mk_want), marks_valid(r), unchanged(o.self, n_.self),
                               other_unchanged(o, n_), fresh_containers(r, n_.self))
                add("CompilePipeline.__add__", Case(f"{tag}/{olabel}", dict(base, other=ot), ensures=plus_post,
                    raises={"TransformError": lambda o, c=both_final: c(o)}, must_return=lambda o, c=both_final: not c(o), size_bounded=True))

                def iadd_post(o, r, n_):
                    want, mk_want, _ = add_want(o)
                    return And(same(r, n_.self), match_list(view(n_.self), want), marks_eq(marks(n_.self), mk_want), marks_valid(n_.self),
                               other_unchanged(o, n_))
                add("CompilePipeline.__iadd__", Case(f"{tag}/{olabel}", dict(base, other=ot), ensures=iadd_post,
                    raises={"TransformError": lambda o, c=both_final: c(o)}, must_return=lambda o, c=both_final: not c(o),
                    exc_ensures=lambda name, o, n_: unchanged(o.self, n_.self), size_bounded=True))
                if olabel.startswith("pipe"):
                    add("CompilePipeline.extend", Case(f"{tag}/{olabel}", dict(base, transforms=ot),
                        ensures=lambda o, r, n_: iadd_post(S_rename(o, "transforms"), n_.self, S_rename(n_, "transforms")),
                        raises={"TransformError": lambda o, c=both_final: c(S_rename(o, "transforms"))},
                        must_return=lambda o, c=both_final: not c(S_rename(o, "transforms")), size_bounded=True))
                if olabel.startswith(("bt:", "T:")):
                    def radd_post(o, r, n_):
                        new, _, _ = as_added(o.other)
                        want = new + [("same", e) for e in view(o.self)]
                        mk_want = {k_: v + len(new) for k_, v in marks(o.self).items()}      # the markers move with their neighbours
                        return And(match_list(view(r), want), marks_eq(marks(r), mk_want), marks_valid(r), unchanged(o.self, n_.self),
                                   fresh_containers(r, n_.self))
                    add("CompilePipeline.__radd__", Case(f"{tag}/{olabel}", dict(base, other=ot), ensures=radd_post,
                        raises={"TransformError": lambda o, c=both_final: c(o)}, must_return=lambda o, c=both_final: not c(o), size_bounded=True))

            # ---- * ---------------------------------------------------------------------------------------------------------------------
            for k_rep in (0, 1, 2, 3):
                def mul_post(o, r, n_, k_rep=k_rep):
                    want = [("same", e) for _ in range(k_rep) for e in view(o.self)]
                    # markers: on a non-empty result they are the markers of the first copy; never a level beyond the end
                    return And(match_list(view(r), want), marks_valid(r), unchanged(o.self, n_.self), fresh_containers(r, n_.self),
                               marks_eq(marks(r), marks(o.self)) if k_rep >= 1 else True)
                add("CompilePipeline.__mul__", Case(f"{tag}/times{k_rep}", dict(base, n=T("const", k_rep)), ensures=mul_post,
                    raises={"TransformError": lambda o: has_final(view(o.self))}, must_return=lambda o: not has_final(view(o.self)), size_bounded=True))
            add("CompilePipeline.__mul__", Case(f"{tag}/negative", dict(base, n=Int), requires=lambda a: a.n < 0, ensures=lambda o, r, n_: False,
                raises={"ValueError": lambda o: True}, size_bounded=True))

            # ---- slices --------------------------------------------------------------------------------------------------------------------
            if L >= 2 and len(mk_names) <= 1:
                bounds = [None, 0, 1, L - 1, L, -1]
                for st_, sp_, stp_ in [(a_, b_, c_) for a_ in bounds for b_ in bounds for c_ in (None, 2, -1)
                                      if (c_ is None or (a_ is None and b_ is None) or (a_, b_) in ((0, None), (None, L), (1, None)))]:
                    sl = slice(st_, sp_, stp_)

                    def sl_post(o, r, n_, sl=sl):
                        old = view(o.self)
                        start, stop, step = sl.indices(len(old))
                        want = [("same", e) for e in old[sl]]
                        conj = [match_list(view(r), want), unchanged(o.self, n_.self), marks_valid(r)]
                        got = marks(r)
                        if step != 1:
                            conj.append(len(got) == 0)         # documented: markers are dropped for a step other than 1
                        else:
                            for k_, v in marks(o.self).items():
                                inside = And(v >= start, v < stop)
                                conj.append(Implies(inside, (k_ in got) and eq(got.get(k_, 0), v - start)))
                                # a marker outside [start, stop] is dropped; exactly at `stop` it may sit at the end of the slice or be dropped
                                conj.append(Implies(Or(v < start, v > stop), k_ not in got))
                                if k_ in got:
                                    conj.append(Implies(eq(v, stop), eq(got[k_], stop - start)) if stop >= start else (k_ not in got))
                        return And(True, *conj)
                    add("CompilePipeline.__getitem__", Case(f"{tag}/slice[{st_}:{sp_}:{stp_}]", dict(base, idx=T("const", sl)), ensures=sl_post, size_bounded=True))

            # ---- == / in -----------------------------------------------------------------------------------------------------------------
            add("CompilePipeline.__eq__", Case(f"{tag}/same-content", dict(base, other=pipe_t(tokens, mk_names, "other")),
                ensures=lambda o, r, n_: eq(r, And(len(view(o.self)) == len(view(o.other)), *[bt_equal(x, y) for x, y in zip(view(o.self), view(o.other))],
                                                   marks_eq(marks(o.self), marks(o.other)))), size_bounded=True))
            if L >= 1:
                add("CompilePipeline.__eq__", Case(f"{tag}/shorter", dict(base, other=pipe_t(tokens[:-1], (), "other")), ensures=lambda o, r, n_: eq(r, False), size_bounded=True))
                for tok in ("a", "T:a", "z", "T:z"):
                    def in_post(o, r, n_):
                        obj = o.obj
                        if (sym(obj) and obj.cls is TRF) or (not sym(obj) and type(obj).__name__ == "Transform"):
                            want = any(tfn(e) is (obj.f["tape_transform"] if sym(obj) else obj.tape_transform) for e in view(o.self))
                        else:
                            want = Or(False, *[bt_equal(e, obj) for e in view(o.self)])
                        return eq(r, want) if isinstance(want, bool) else (r == want)
                    add("CompilePipeline.__contains__", Case(f"{tag}/{tok}", dict(base, obj=elem_t(tok)), ensures=in_post, size_bounded=True))

    class _NSR:
        pass

    def S_rename(ns, frm):
        """view of a parameter namespace with parameter `frm` also available as `.other`"""
        out = _NSR()
        out.__dict__.update(ns.__dict__)
        out.other = getattr(ns, frm)
        return out

    def fresh_containers(r, orig):
        if sym(r):
            return r.f["_compile_pipeline"] is not orig.f["_compile_pipeline"] and r.f["_markers"] is not orig.f["_markers"]
        return r._compile_pipeline is not orig._compile_pipeline and r._markers is not orig._markers     # pylint: disable=protected-access

    for fc in contracts:
        for ob in obligations_for("C23", fc, tier):
            plan.add(ob)
        plan.fn_under_contract(CP, fc.qualname)
    for q in ("BoundTransform.__init__", "BoundTransform.__eq__", "BoundTransform.expand_transform", "BoundTransform.is_final_transform",
              "BoundTransform.tape_transform", "BoundTransform.args", "BoundTransform.kwargs"):
        plan.fn_under_contract(TR, q)


