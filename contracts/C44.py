"""C44 Shots specifications are interpreted consistently.

Abstract view: expand(spec) = the list of per-execution shot counts.  Contracts on the real methods of core/shots.py state
every observable (shot_vector, total_shots, iteration, bins, num_copies, partitioned flag, +, *) against that list.
Sequences have SYMBOLIC length (z3 sequences); rep / expand / sum / bins are spec functions used through instances of their
defining equations; the derived laws (rep-add, sum-concat, sum-rep, expand-concat, len-rep) are proved by induction lemmas.
"""
import z3

from vf.common import Plan
from vf.pyvc.engine import World, T, Int, Bool, Float, RecT, SeqT, TupleT, Rec, SeqV, PyList, FloatV, fresh, Unsupp, RaiseExc
from vf.pyvc.contract import FnContract, Case, LoopSpec, obligations_for, lemma
from vf.pyvc import spec as S
from vf.pyvc.ext import with_standin
from vf.pyvc.spec import And, Or, Not, Implies, If

SHOTS = "pennylane/core/shots.py"
SC = RecT("ShotCopies")
PAIR = TupleT(Int, Int)
IS = z3.SeqSort(z3.IntSort())
NoneV = T("const", None)


def build(tier, seed):
    plan = Plan("C44", level="proof")
    plan.explanation = ("Shots methods are executed symbolically on sequences of SYMBOLIC length; loops are cut by invariants over "
                        "the expansion view; spec functions are used through instances of their defining equations and the "
                        "derived laws are proved by explicit induction lemmas (base + step obligations).")
    plan.trusted_base = ["vf/pyvc encoder (Python subset semantics)", "z3 sequence + arithmetic theories",
                         "induction principle over naturals / finite sequences (meta-level) for the lemma pairs base+step"]
    plan.assumptions = ["A-concrete-inputs: math.is_abstract(x) is False (tracer/abstract-array disjuncts dropped)",
                        "A-float-as-real for the scalar of Shots.__mul__"]
    plan.dropped = ["docstrings, annotations, __str__/__repr__, abstract-array branches"]

    w = World(SHOTS, classes={"ShotCopies": {"shots": Int, "copies": Int},
                              "Shots": {"total_shots": Int, "shot_vector": SeqT(SC, tuple=True), "_frozen": Bool}},
              functions=["valid_int", "valid_tuple"],
              extra_builtins={"math.is_abstract": lambda it, a, k: False})
    PairS, SCs = w.sort_of(PAIR), w.sort_of(SC)
    sh_p, cp_p = PairS.accessor(0, 0), PairS.accessor(0, 1)
    sh_s, cp_s = SCs.accessor(0, 0), SCs.accessor(0, 1)
    mkp = PairS.constructor(0)
    mks = SCs.constructor(0)

    # ---- spec functions (uninterpreted; only instances of their defining equations / proved lemmas are ever assumed) ----
    rep = z3.Function("rep", z3.IntSort(), z3.IntSort(), IS)                 # rep(x, n) = [x] * n
    EXP_P = z3.Function("expand_pairs", z3.SeqSort(PairS), IS)               # expansion of a sequence of (shots, copies)
    EXP_S = z3.Function("expand_sc", z3.SeqSort(SCs), IS)                    # expansion of a sequence of ShotCopies
    SUM = z3.Function("sum", IS, z3.IntSort())
    BINS = z3.Function("bins", IS, z3.SeqSort(PairS))                        # consecutive (prefix_k, prefix_k+1)
    COPIES = z3.Function("copies", z3.SeqSort(SCs), z3.IntSort())            # sum of the copies fields

    VALID = z3.Function("valid_sc", z3.SeqSort(SCs), z3.BoolSort())          # every entry has shots >= 1 and copies >= 1

    def valid_def(s, e):
        return [VALID(z3.Empty(s.sort())), VALID(z3.Concat(s, z3.Unit(e))) == z3.And(VALID(s), sh_s(e) >= 1, cp_s(e) >= 1)]

    def valid_out(v):
        """validity of a produced ShotCopies sequence (snoc-defined predicate: no quantifier in proof goals)"""
        if isinstance(v, SeqV):
            return VALID(v.term)
        if isinstance(v, z3.ExprRef):
            return VALID(v)
        return all(x[0] >= 1 and x[1] >= 1 for x in v)

    CANON = z3.Function("canonical_sc", z3.SeqSort(SCs), z3.BoolSort())     # adjacent entries have different shot counts (snoc-defined)

    def canon_def(s, e):
        return [CANON(z3.Empty(s.sort())),
                CANON(z3.Concat(s, z3.Unit(e))) == z3.And(CANON(s), z3.Or(z3.Length(s) == 0, sh_s(s[z3.Length(s) - 1]) != sh_s(e)))]

    def canon_out(v):
        if isinstance(v, SeqV):
            return CANON(v.term)
        if isinstance(v, z3.ExprRef):
            return CANON(v)
        return all(a_[0] != b_[0] for a_, b_ in zip(list(v), list(v)[1:]))

    VALID_P = z3.Function("valid_pairs", z3.SeqSort(PairS), z3.BoolSort())

    def validp_def(s, e):
        return [VALID_P(z3.Empty(s.sort())), VALID_P(z3.Concat(s, z3.Unit(e))) == z3.And(VALID_P(s), sh_p(e) >= 1, cp_p(e) >= 1)]

    def rep_def(xx, nn):
        return [z3.Implies(nn <= 0, rep(xx, nn) == z3.Empty(IS)),
                z3.Implies(nn > 0, rep(xx, nn) == z3.Concat(rep(xx, nn - 1), z3.Unit(xx)))]

    def exp_def(EXP, s, e, acc):
        return [EXP(z3.Empty(s.sort())) == z3.Empty(IS),
                EXP(z3.Concat(s, z3.Unit(e))) == z3.Concat(EXP(s), rep(acc[0](e), acc[1](e)))]

    def sum_def(s, y):
        return [SUM(z3.Empty(IS)) == 0, SUM(z3.Concat(s, z3.Unit(y))) == SUM(s) + y]

    def bins_def(s, y):
        return [BINS(z3.Empty(IS)) == z3.Empty(z3.SeqSort(PairS)),
                BINS(z3.Concat(s, z3.Unit(y))) == z3.Concat(BINS(s), z3.Unit(mkp(SUM(s), SUM(s) + y)))]

    def copies_def(s, e):
        return [COPIES(z3.Empty(s.sort())) == 0, COPIES(z3.Concat(s, z3.Unit(e))) == COPIES(s) + cp_s(e)]

    # derived laws (each proved below as lemma obligations base+step)
    def rep_add(xx, a, b):
        return z3.Implies(z3.And(a >= 0, b >= 0), rep(xx, a + b) == z3.Concat(rep(xx, a), rep(xx, b)))

    def sum_concat(a, b):
        return SUM(z3.Concat(a, b)) == SUM(a) + SUM(b)

    def sum_rep(xx, nn):
        return z3.Implies(nn >= 0, SUM(rep(xx, nn)) == xx * nn)

    def len_rep(xx, nn):
        return z3.Implies(nn >= 0, z3.Length(rep(xx, nn)) == nn)

    def exp_concat(EXP, a, b):
        return EXP(z3.Concat(a, b)) == z3.Concat(EXP(a), EXP(b))

    def snoc_slice(s, k):       # sequence fact: s[:k+1] == s[:k] ++ [s[k]]
        return z3.Implies(z3.And(k >= 0, k < z3.Length(s)),
                          z3.Extract(s, 0, k + 1) == z3.Concat(z3.Extract(s, 0, k), z3.Unit(s[k])))

    def nth_concat(a_, b_, k):      # sequence fact (lemma seq/nth-of-concat)
        c_ = z3.Concat(a_, b_)
        return z3.And(z3.Implies(z3.And(k >= 0, k < z3.Length(a_)), c_[k] == a_[k]),
                      z3.Implies(z3.And(k >= z3.Length(a_), k < z3.Length(a_) + z3.Length(b_)), c_[k] == b_[k - z3.Length(a_)]))

    def split_snoc(term):
        if z3.is_app_of(term, z3.Z3_OP_SEQ_CONCAT):
            ch = term.children()
            if z3.is_app_of(ch[-1], z3.Z3_OP_SEQ_UNIT):
                pre = ch[0] if len(ch) == 2 else z3.Concat(*ch[:-1])
                return pre, ch[-1].arg(0)
        return None

    def st(v, elem=SC):
        return S.seqterm(w, v, elem)

    # ---- polymorphic views: z3 terms on symbolic values, plain python on the real objects (replay) ----------------------
    def expand(v):
        if isinstance(v, SeqV):
            return (EXP_S if v.elem.kind == "rec" else EXP_P)(v.term)
        if isinstance(v, PyList):
            v = v.items
        if len(v) and isinstance(v[0], Rec):
            return EXP_S(st(PyList(list(v))))
        return [x[0] for x in v for _ in range(x[1])]

    def total(e):
        return SUM(e) if isinstance(e, z3.ExprRef) else sum(e)

    def cat(a, b):
        return z3.Concat(a, b) if isinstance(a, z3.ExprRef) or isinstance(b, z3.ExprRef) else list(a) + list(b)

    def seq_eq(a, b):
        if isinstance(a, z3.ExprRef) or isinstance(b, z3.ExprRef):
            return a == b
        return list(a) == list(b)

    def bins_of(e):
        if isinstance(e, z3.ExprRef):
            return BINS(e)
        out, lo = [], 0
        for x in e:
            out.append((lo, lo + x))
            lo += x
        return out

    def slen(v):
        if isinstance(v, SeqV):
            return z3.Length(v.term)
        if isinstance(v, z3.ExprRef):
            return z3.Length(v)
        return len(v)

    def valid_seq(v):
        """type invariant of a shot sequence: every entry has shots >= 1 and copies >= 1"""
        if isinstance(v, SeqV):
            i = z3.Int("vi")
            seq = v.term
            a0, a1 = (sh_s, cp_s) if v.elem.kind == "rec" else (sh_p, cp_p)
            return z3.ForAll([i], z3.Implies(z3.And(i >= 0, i < z3.Length(seq)), z3.And(a0(seq[i]) >= 1, a1(seq[i]) >= 1)))
        return all(isinstance(x[0], int) and isinstance(x[1], int) and x[0] >= 1 and x[1] >= 1 for x in v)

    def wf(sh):
        """representation invariant of a finite-shot Shots object"""
        if isinstance(sh, Rec):
            sv = sh.shot_vector
            return And(valid_seq(sv), slen(sv) >= 1, sh.total_shots == SUM(EXP_S(sv.term)), sh._frozen)
        return sh.total_shots is not None and valid_seq(sh.shot_vector) and len(sh.shot_vector) >= 1 and \
            sh.total_shots == sum(expand(sh.shot_vector))

    def repair(rng, m):
        """make Shots-typed model data well-formed: positive entries, total_shots re-derived, frozen"""
        out = {}
        for k, v in m.items():
            if isinstance(v, dict) and v.get("__class__") == "Shots" and v.get("total_shots") is not None:
                sv = [dict(e, shots=abs(int(e["shots"])) or 1, copies=abs(int(e["copies"])) or 1) for e in (v.get("shot_vector") or [])]
                if not sv:
                    sv = [{"__class__": "ShotCopies", "shots": 3, "copies": 1}]
                v = dict(v, shot_vector=sv, total_shots=sum(e["shots"] * e["copies"] for e in sv))
            elif rng is not None and isinstance(v, list) and v and all(isinstance(e, (list, tuple)) and len(e) == 2 for e in v):
                # random search only: valid (shots, copies) pairs with a good chance of adjacent equal shot values
                v = [(1 + abs(int(e[0])) % 3, 1 + abs(int(e[1])) % 3) for e in v]
            out[k] = v
        return out

    FiniteShots = RecT("Shots")
    AnalyticShots = T("rec", "Shots", override={"total_shots": NoneV, "shot_vector": T("const", ())})

    contracts = []
    # ---- Shots.__all_tuple_init__ (both element representations) ---------------------------------------------------------
    for label, elemT, EXP, acc in (("pairs", PAIR, EXP_P, (sh_p, cp_p)), ("ShotCopies", SC, EXP_S, (sh_s, cp_s))):
        def inv(v, EXP=EXP, elemT=elemT):
            shots = v.shots.term
            i = v._i0
            res = st(v.res)
            return And(z3.Concat(EXP_S(res), rep(S._t(v.current_shots), S._t(v.current_copies))) == EXP(z3.Extract(shots, 0, i + 1)),
                       v.total_shots == SUM(EXP_S(res)), v.current_copies >= 1, v.current_shots >= 1, i >= 0,
                       i <= z3.Length(shots) - 1, VALID(res))

        def inv_axioms(v, EXP=EXP, acc=acc):
            shots = v.shots.term
            i = v._i0
            res = st(v.res)
            cs, cc = S._t(v.current_shots), S._t(v.current_copies)
            out = exp_def(EXP_S, res, mks(cs, cc), (sh_s, cp_s)) + valid_def(res, mks(cs, cc))
            for k in (i, i + 1):
                out.append(snoc_slice(shots, k))
                out += exp_def(EXP, z3.Extract(shots, 0, k), shots[k], acc)
            out.append(z3.Extract(shots, 0, 0) == z3.Empty(shots.sort()))
            out.append(rep_add(cs, cc, acc[1](shots[i + 1])))
            out.append(sum_concat(EXP_S(res), rep(cs, cc)))
            out.append(sum_rep(cs, cc))
            return out

        def post_axioms(o, r, nw, loc, EXP=EXP):
            shots = o.shots.term
            res = st(loc.res)
            cs, cc = S._t(loc.current_shots), S._t(loc.current_copies)
            return [z3.Extract(shots, 0, z3.Length(shots)) == shots, sum_concat(EXP_S(res), rep(cs, cc)), sum_rep(cs, cc)] + \
                exp_def(EXP_S, res, mks(cs, cc), (sh_s, cp_s)) + valid_def(res, mks(cs, cc))

        contracts.append(FnContract(w, "Shots.__all_tuple_init__", [
            Case(f"shots:seq-of-{label}", {"self": RecT("Shots"), "shots": SeqT(elemT)},
                 requires=lambda a: And(slen(a.shots) >= 1, valid_seq(a.shots), Not(a.self._frozen)),
                 ensures=lambda o, r, nw: And(seq_eq(expand(nw.self.shot_vector), expand(o.shots)),
                                              nw.self.total_shots == total(expand(o.shots)),
                                              valid_out(nw.self.shot_vector), slen(nw.self.shot_vector) >= 1),
                 axioms=post_axioms,
                 loops={0: LoopSpec(inv, types={"res": SeqT(SC)}, axioms=inv_axioms)})]))

        # the produced vector is CANONICAL (adjacent entries differ): separate cases with the strengthened invariant
        def inv_c(v, inv=inv):
            res = st(v.res)
            return And(inv(v), CANON(res), Or(z3.Length(res) == 0, sh_s(res[z3.Length(res) - 1]) != S._t(v.current_shots)))

        def inv_axioms_c(v, inv_axioms=inv_axioms):
            res = st(v.res)
            out = inv_axioms(v) + [CANON(z3.Empty(res.sort()))]
            sn = split_snoc(res)
            if sn is not None:
                out += canon_def(sn[0], sn[1]) + [z3.Concat(sn[0], z3.Unit(sn[1]))[z3.Length(sn[0])] == sn[1]]
            return out

        def post_axioms_c(o, r, nw, loc, post_axioms=post_axioms):
            res = st(loc.res)
            e_last = mks(S._t(loc.current_shots), S._t(loc.current_copies))
            return post_axioms(o, r, nw, loc) + canon_def(res, e_last) + [CANON(z3.Empty(res.sort()))]
        contracts.append(FnContract(w, "Shots.__all_tuple_init__", [
            Case(f"shots:seq-of-{label}/canonical-form", {"self": RecT("Shots"), "shots": SeqT(elemT)},
                 requires=lambda a: And(slen(a.shots) >= 1, valid_seq(a.shots), Not(a.self._frozen)),
                 ensures=lambda o, r, nw: And(canon_out(nw.self.shot_vector), valid_out(nw.self.shot_vector)),
                 axioms=post_axioms_c, loops={0: LoopSpec(inv_c, types={"res": SeqT(SC)}, axioms=inv_axioms_c)})]))

    # ---- iteration: yields exactly expand(shot_vector) -------------------------------------------------------------------
    def iter_outer(v):
        sv = v.self.shot_vector.term
        return And(v.yielded.term == EXP_S(z3.Extract(sv, 0, v._i0)), v._i0 >= 0, v._i0 <= z3.Length(sv))

    def iter_outer_ax(v):
        sv = v.self.shot_vector.term
        i = v._i0
        out = [z3.Extract(sv, 0, 0) == z3.Empty(sv.sort()), EXP_S(z3.Empty(sv.sort())) == z3.Empty(IS)]
        for k in (i - 1, i):
            out.append(snoc_slice(sv, k))
            out.append(z3.Implies(z3.And(k >= 0, k < z3.Length(sv)),
                                  z3.And(*exp_def(EXP_S, z3.Extract(sv, 0, k), sv[k], (sh_s, cp_s)))))
        return out

    def iter_inner(v):
        sv = v.self.shot_vector.term
        i, j = v._i0, v._i1
        return And(v.yielded.term == z3.Concat(EXP_S(z3.Extract(sv, 0, i)), rep(v.shot_copy.shots, j)), j >= 0, j <= v.shot_copy.copies,
                   i >= 0, i < z3.Length(sv), mks(v.shot_copy.shots, v.shot_copy.copies) == sv[i])

    def iter_inner_ax(v):
        sh, j = v.shot_copy.shots, v._i1
        return rep_def(sh, j) + rep_def(sh, j + 1) + rep_def(sh, z3.IntVal(0)) + iter_outer_ax(v)

    contracts.append(FnContract(w, "Shots.__iter__", [
        Case("finite", {"self": FiniteShots}, yields=Int, requires=lambda a: wf(a.self),
             ensures=lambda o, r, nw: seq_eq(r.term if isinstance(r, SeqV) else r, expand(o.self.shot_vector)),
             axioms=lambda o, r, nw: [z3.Extract(o.self.shot_vector.term, 0, z3.Length(o.self.shot_vector.term)) == o.self.shot_vector.term],
             loops={0: LoopSpec(iter_outer, axioms=iter_outer_ax), 1: LoopSpec(iter_inner, axioms=iter_inner_ax)}),
        Case("analytic", {"self": AnalyticShots}, yields=Int, ensures=lambda o, r, nw: slen(r) == 0)]))

    # ---- bins: consecutive (lower, upper) pairs of the expansion ------------------------------------------------------------
    def bins_outer(v):
        sv = v.self.shot_vector.term
        E = EXP_S(z3.Extract(sv, 0, v._i0))
        return And(v.yielded.term == BINS(E), v.lower_bound == SUM(E), v._i0 >= 0, v._i0 <= z3.Length(sv))

    def bins_inner(v):
        sv = v.self.shot_vector.term
        i, j = v._i0, v._i1
        E = z3.Concat(EXP_S(z3.Extract(sv, 0, i)), rep(v.sc.shots, j))
        return And(v.yielded.term == BINS(E), v.lower_bound == SUM(E), j >= 0, j <= v.sc.copies, i >= 0, i < z3.Length(sv),
                   mks(v.sc.shots, v.sc.copies) == sv[i])

    def bins_inner_ax(v):
        sv = v.self.shot_vector.term
        i, j, sh = v._i0, v._i1, v.sc.shots
        P = EXP_S(z3.Extract(sv, 0, i))
        out = rep_def(sh, j) + rep_def(sh, j + 1) + rep_def(sh, z3.IntVal(0)) + iter_outer_ax(v)
        for jj in (j - 1, j):
            E = z3.Concat(P, rep(sh, jj))
            out += bins_def(E, sh) + sum_def(E, sh)
        out += [BINS(z3.Empty(IS)) == z3.Empty(z3.SeqSort(PairS)), SUM(z3.Empty(IS)) == 0]
        return out

    contracts.append(FnContract(w, "Shots.bins", [
        Case("finite", {"self": FiniteShots}, yields=PAIR, requires=lambda a: wf(a.self),
             ensures=lambda o, r, nw: seq_eq(r.term if isinstance(r, SeqV) else [tuple(x) for x in r], bins_of(expand(o.self.shot_vector))),
             axioms=lambda o, r, nw: [z3.Extract(o.self.shot_vector.term, 0, z3.Length(o.self.shot_vector.term)) == o.self.shot_vector.term],
             loops={0: LoopSpec(bins_outer, axioms=lambda v: iter_outer_ax(v) + [BINS(z3.Empty(IS)) == z3.Empty(z3.SeqSort(PairS)), SUM(z3.Empty(IS)) == 0]),
                    1: LoopSpec(bins_inner, axioms=bins_inner_ax)})]))

    # ---- simple observers ---------------------------------------------------------------------------------------------------
    contracts.append(FnContract(w, "Shots.__bool__", [
        Case("finite", {"self": FiniteShots}, requires=lambda a: wf(a.self), ensures=lambda o, r, nw: r == True),  # noqa: E712
        Case("analytic", {"self": AnalyticShots}, ensures=lambda o, r, nw: r == False)]))  # noqa: E712
    contracts.append(FnContract(w, "Shots.has_partitioned_shots", [
        # partitioned <=> the expansion has more than one entry
        Case("finite", {"self": FiniteShots}, requires=lambda a: wf(a.self),
             ensures=lambda o, r, nw: r == (slen(expand(o.self.shot_vector)) > 1),
             axioms=lambda o, r, nw: has_part_axioms(o.self.shot_vector.term)),
        Case("analytic", {"self": AnalyticShots}, ensures=lambda o, r, nw: r == False)]))  # noqa: E712

    def has_part_axioms(sv):
        # len(expand(sv)) for sv = [e0] ++ rest: instances of expand-concat, len-rep
        e0 = sv[0]
        rest = z3.Extract(sv, 1, z3.Length(sv) - 1)
        e1 = sv[1]
        rest2 = z3.Extract(sv, 2, z3.Length(sv) - 2)
        return [z3.Implies(z3.Length(sv) >= 1, sv == z3.Concat(z3.Unit(e0), rest)),
                z3.Implies(z3.Length(sv) >= 2, rest == z3.Concat(z3.Unit(e1), rest2)),
                exp_concat(EXP_S, z3.Unit(e0), rest), exp_concat(EXP_S, z3.Unit(e1), rest2),
                EXP_S(z3.Unit(e0)) == rep(sh_s(e0), cp_s(e0)), EXP_S(z3.Unit(e1)) == rep(sh_s(e1), cp_s(e1)),
                len_rep(sh_s(e0), cp_s(e0)), len_rep(sh_s(e1), cp_s(e1)), EXP_S(z3.Empty(sv.sort())) == z3.Empty(IS)]

    # ---- modular use of __all_tuple_init__ by its (verified above) contract ----------------------------------------------
    def mc_all_tuple_init(it, args, kwargs):
        self_, shots = args
        ctx = it.ctx
        if not isinstance(shots, SeqV):
            items = shots.items if isinstance(shots, PyList) else list(shots)
            et = SC if (items and isinstance(items[0], Rec)) else PAIR
            shots = SeqV(S.seqterm(w, PyList(items), et), et)
        ctx.prove(S.to_z3(And(slen(shots) >= 1, valid_seq(shots), Not(self_.f.get("_frozen", False)))), "pre-call:Shots.__all_tuple_init__")
        sv = fresh(ctx, SeqT(SC, tuple=True), "shot_vector")
        tot = z3.Int(ctx.fresh_name("total_shots"))
        ctx.assume(z3.And(EXP_S(sv.term) == expand(shots), tot == SUM(expand(shots)), VALID(sv.term), z3.Length(sv.term) >= 1))
        self_.f["shot_vector"], self_.f["total_shots"] = sv, tot
        return None
    w.modular["Shots.__all_tuple_init__"] = mc_all_tuple_init

    def not_valid(v):
        return Not(valid_seq(v))

    # ---- construction ----------------------------------------------------------------------------------------------------------
    def fresh_self():
        return T("rec", "Shots", override={"total_shots": NoneV, "shot_vector": T("const", ()), "_frozen": T("const", False)})

    def native_ctor(mod, args):
        """replay: construct through the public constructor"""
        obj = mod.Shots(args["shots"])
        args["self"] = obj
        return None
    contracts.append(FnContract(w, "Shots.__init__", [
        Case("shots:None", {"self": fresh_self(), "shots": NoneV}, native_call=native_ctor,
             ensures=lambda o, r, nw: And(nw.self.total_shots is None, slen(nw.self.shot_vector) == 0, nw.self._frozen)),
        Case("shots:int", {"self": fresh_self(), "shots": Int}, native_call=native_ctor,
             ensures=lambda o, r, nw: And(nw.self.total_shots == o.shots, seq_eq(expand(nw.self.shot_vector), single(o.shots)),
                                          slen(nw.self.shot_vector) == 1, nw.self._frozen),
             axioms=lambda o, r, nw: single_axioms(o.shots),
             raises={"ValueError": lambda o: o.shots < 1}, must_return=lambda o: o.shots >= 1),
        Case("shots:list-of-pairs", {"self": fresh_self(), "shots": SeqT(PAIR)}, native_call=native_ctor,
             requires=lambda a: slen(a.shots) >= 1,
             ensures=lambda o, r, nw: And(seq_eq(expand(nw.self.shot_vector), expand(o.shots)),
                                          nw.self.total_shots == total(expand(o.shots)), nw.self._frozen),
             raises={"ValueError": lambda o: not_valid(o.shots)}, must_return=lambda o: valid_seq(o.shots)),
        Case("shots:tuple-of-pairs", {"self": fresh_self(), "shots": SeqT(PAIR, tuple=True)}, native_call=native_ctor,
             requires=lambda a: slen(a.shots) >= 1,
             ensures=lambda o, r, nw: And(seq_eq(expand(nw.self.shot_vector), expand(o.shots)),
                                          nw.self.total_shots == total(expand(o.shots)), nw.self._frozen),
             raises={"ValueError": lambda o: not_valid(o.shots)}, must_return=lambda o: valid_seq(o.shots)),
        Case("shots:str", {"self": fresh_self(), "shots": T("const", "ten")}, native_call=native_ctor,
             raises={"ValueError": lambda o: True}),
        Case("shots:float", {"self": fresh_self(), "shots": Float}, native_call=native_ctor, raises={"ValueError": lambda o: True}),
    ]))

    def single(x):
        return rep(S._t(x), z3.IntVal(1)) if isinstance(x, z3.ExprRef) else [x]

    def single_axioms(x):
        x = S._t(x)
        e1 = mks(x, z3.IntVal(1))
        return exp_def(EXP_S, z3.Empty(z3.SeqSort(SCs)), e1, (sh_s, cp_s)) + \
            [z3.Concat(z3.Empty(z3.SeqSort(SCs)), z3.Unit(e1)) == z3.Unit(e1)]

    # ---- addition: expansion of the sum is the concatenation ---------------------------------------------------------------------
    def add_inv(v):
        C = z3.Concat(v.self.shot_vector.term, v.other.shot_vector.term)
        sv = st(v.shot_vector, PAIR)
        i = v._i0
        return And(EXP_P(sv) == EXP_S(z3.Extract(C, 0, i)), z3.Length(sv) == i, i >= 0, i <= z3.Length(C), VALID_P(sv))

    def add_inv_ax(v):
        C = z3.Concat(v.self.shot_vector.term, v.other.shot_vector.term)
        sv = st(v.shot_vector, PAIR)
        i = v._i0
        out = [z3.Extract(C, 0, 0) == z3.Empty(C.sort()), EXP_S(z3.Empty(C.sort())) == z3.Empty(IS),
               EXP_P(z3.Empty(z3.SeqSort(PairS))) == z3.Empty(IS)]
        for k in (i - 1, i):
            out.append(snoc_slice(C, k))
            out.append(z3.Implies(z3.And(k >= 0, k < z3.Length(C)),
                                  z3.And(*exp_def(EXP_S, z3.Extract(C, 0, k), C[k], (sh_s, cp_s)))))
        A_, B_ = v.self.shot_vector.term, v.other.shot_vector.term
        for k in (i - 1, i):
            out.append(nth_concat(A_, B_, k))
        # the appended pair: the engine builds list.append as  prefix ++ [e]
        sn = split_snoc(sv)
        if sn is not None:
            out += exp_def(EXP_P, sn[0], sn[1], (sh_p, cp_p)) + validp_def(sn[0], sn[1])
        out.append(VALID_P(z3.Empty(z3.SeqSort(PairS))))
        # conclusion of the induction lemma `valid-elementwise` (pairs): the snoc-defined predicate gives elementwise validity
        out.append(z3.Implies(VALID_P(sv), valid_seq(SeqV(sv, PAIR))))
        return out

    def add_post_ax(o, r, nw):
        A_, B_ = o.self.shot_vector.term, o.other.shot_vector.term
        C = z3.Concat(A_, B_)
        return [exp_concat(EXP_S, A_, B_), sum_concat(EXP_S(A_), EXP_S(B_)), z3.Extract(C, 0, z3.Length(C)) == C]

    contracts.append(FnContract(w, "Shots.__add__", [
        Case("finite+finite", {"self": FiniteShots, "other": FiniteShots}, requires=lambda a: And(wf(a.self), wf(a.other)),
             ensures=lambda o, r, nw: And(seq_eq(expand(r.shot_vector), cat(expand(o.self.shot_vector), expand(o.other.shot_vector))),
                                          r.total_shots == o.self.total_shots + o.other.total_shots),
             axioms=add_post_ax,
             loops={0: LoopSpec(add_inv, types={"shot_vector": SeqT(PAIR)}, axioms=add_inv_ax)}),
        Case("analytic+finite", {"self": AnalyticShots, "other": FiniteShots}, requires=lambda a: wf(a.other),
             ensures=lambda o, r, nw: r is nw.other),
        Case("finite+analytic", {"self": FiniteShots, "other": AnalyticShots}, requires=lambda a: wf(a.self),
             ensures=lambda o, r, nw: r is nw.self),
        Case("analytic+analytic", {"self": AnalyticShots, "other": AnalyticShots},
             ensures=lambda o, r, nw: And(r.total_shots is None, slen(r.shot_vector) == 0))]))

    # ---- scaling: every ShotCopies entry becomes (int(shots * k), copies); ValueError iff some product truncates below 1 ------
    def trunc_mul(sh, k):
        """int(sh * k): truncation toward zero of the real product (python int() semantics)"""
        if isinstance(k, z3.ArithRef) and k.is_int():
            return S._t(sh) * k            # integer scalar: the product is an integer already
        if isinstance(sh, z3.ExprRef) or isinstance(k, (z3.ExprRef, FloatV)):
            kk = k.t if isinstance(k, FloatV) else z3.ToReal(S._t(k))
            x = z3.ToReal(S._t(sh)) * kk
            return z3.If(x >= 0, z3.ToInt(x), -z3.ToInt(-x))
        from fractions import Fraction
        prod = Fraction(sh) * Fraction(k)
        return int(prod)       # exact rational truncation (the spec side does not go through binary64)

    def scaled_rel(M, sv, k):
        """M is the pointwise scaling of sv"""
        i = z3.Int("si")
        return z3.And(z3.Length(M) == z3.Length(sv),
                      z3.ForAll([i], z3.Implies(z3.And(i >= 0, i < z3.Length(sv)),
                                                M[i] == mks(trunc_mul(sh_s(sv[i]), k), cp_s(sv[i])))))

    SCALED = z3.Function("scaled", z3.SeqSort(SCs), z3.RealSort(), z3.SeqSort(SCs))      # spec: the pointwise-scaled vector

    def scaled_of(sv, k):
        if isinstance(sv, SeqV):
            kk = k.t if isinstance(k, FloatV) else z3.ToReal(S._t(k))
            return SCALED(sv.term, kk)
        return [(trunc_mul(x[0], k), x[1]) for x in sv]

    def mul_axioms(o, r, nw, loc):
        sv = o.self.shot_vector.term
        k = o.scalar
        kk = k.t if isinstance(k, FloatV) else z3.ToReal(S._t(k))
        out = [scaled_rel(SCALED(sv, kk), sv, k)]                   # defining property of the spec function
        for (m, src) in getattr(loc.ghost, "mapped", []):
            # sequence extensionality (lemma seq/extensionality): equal length + pointwise equal => equal
            j = z3.Int("ej")
            out.append(z3.Implies(z3.And(z3.Length(m) == z3.Length(SCALED(sv, kk)),
                                         z3.ForAll([j], z3.Implies(z3.And(j >= 0, j < z3.Length(m)), m[j] == SCALED(sv, kk)[j]))),
                                  m == SCALED(sv, kk)))
        return out

    def some_below_one(o):
        sv, k = o.self.shot_vector, o.scalar
        if isinstance(sv, SeqV):
            i = z3.Int("bi")
            return z3.Exists([i], z3.And(i >= 0, i < z3.Length(sv.term), trunc_mul(sh_s(sv.term[i]), k) < 1))
        return any(trunc_mul(x[0], k) < 1 for x in sv)

    def scaled_list(sv, k):
        """the pointwise-scaled vector of a CONCRETE-length vector (list of Rec / of real ShotCopies)"""
        if isinstance(sv, PyList):
            return PyList([Rec(w.classes["ShotCopies"], {"shots": trunc_mul(x.shots, k), "copies": x.copies}) for x in sv.items])
        return [(trunc_mul(x[0], k), x[1]) for x in sv]

    def wf_list(sh):
        if isinstance(sh, Rec):
            items = sh.shot_vector.items
            return And(*[And(x.shots >= 1, x.copies >= 1) for x in items], sh._frozen)
        return all(x[0] >= 1 and x[1] >= 1 for x in sh.shot_vector)

    for n_entries in (1, 2, 3):
        ListShots = T("rec", "Shots", override={"shot_vector": T("list", SC, n_entries)})
        for lab, kt in (("int", Int), ("float", Float)):
            contracts.append(FnContract(w, "Shots.__mul__", [
                Case(f"finite[{n_entries} entries]*{lab}", {"self": ListShots, "scalar": kt}, requires=lambda a: wf_list(a.self),
                     size_bounded=True,
                     ensures=lambda o, r, nw: seq_eq(expand(r.shot_vector), expand(scaled_list(o.self.shot_vector, o.scalar))),
                     # ValueError when a scaled entry is no valid shot count (< 1)
                     raises={"ValueError": lambda o: Or(*[trunc_mul(x.shots if isinstance(x, Rec) else x[0], o.scalar) < 1
                                                          for x in (o.self.shot_vector.items if isinstance(o.self.shot_vector, PyList) else o.self.shot_vector)])},
                     must_return=lambda o: And(*[trunc_mul(x.shots if isinstance(x, Rec) else x[0], o.scalar) >= 1
                                                 for x in (o.self.shot_vector.items if isinstance(o.self.shot_vector, PyList) else o.self.shot_vector)]))]))
    for lab, kt in (("int", Int), ("float", Float)):
        contracts.append(FnContract(w, "Shots.__mul__", [
            Case(f"analytic*{lab}", {"self": AnalyticShots, "scalar": kt}, ensures=lambda o, r, nw: r is nw.self)]))
    contracts.append(FnContract(w, "Shots.__mul__", [
        Case("finite*str", {"self": FiniteShots, "scalar": T("const", "2")}, requires=lambda a: wf(a.self),
             raises={"TypeError": lambda o: True})]))

    # ================================================================================================================================
    # deepening: constructor on sequences of ShotCopies, scaling of vectors of SYMBOLIC length, num_copies, __hash__
    # ================================================================================================================================
    def link_valid(ctx, seqv):
        """VALID (snoc-defined) and elementwise validity are the same predicate: both directions are induction lemmas below
        (valid-elementwise/step, elementwise-valid/base+step); the instance for this sequence is assumed on every path"""
        ctx.assume(VALID(seqv.term) == valid_seq(seqv))

    contracts.append(FnContract(w, "Shots.__init__", [
        Case("shots:tuple-of-ShotCopies", {"self": fresh_self(), "shots": SeqT(SC, tuple=True)},
             native_call=lambda mod, args: (args.__setitem__("self", mod.Shots(tuple(mod.ShotCopies(*x) for x in args["shots"]))), None)[1],
             ghost=lambda ctx, a: link_valid(ctx, a.shots), requires=lambda a: slen(a.shots) >= 1,
             ensures=lambda o, r, nw: And(seq_eq(expand(nw.self.shot_vector), expand(o.shots)), nw.self.total_shots == total(expand(o.shots)),
                                          valid_out(nw.self.shot_vector), slen(nw.self.shot_vector) >= 1, nw.self._frozen),
             raises={"ValueError": lambda o: Not(valid_out(o.shots))}, must_return=lambda o: valid_out(o.shots))]))

    # ---- a second world in which the constructor is used through that contract ----------------------------------------------------
    def mc_init(it, args, kwargs):
        self_ = args[0]
        shots = args[1] if len(args) > 1 else kwargs.get("shots")
        if not (isinstance(shots, SeqV) and shots.elem.kind == "rec"):
            raise Unsupp("modular Shots.__init__ is only used for sequences of ShotCopies")
        ctx = it.ctx
        ctx.prove(S.to_z3(And(slen(shots) >= 1, Not(self_.f.get("_frozen", False)))), "pre-call:Shots.__init__")
        if not ctx.branch(VALID(shots.term)):
            raise RaiseExc("ValueError")
        sv = fresh(ctx, SeqT(SC, tuple=True), "shot_vector")
        tot = z3.Int(ctx.fresh_name("total_shots"))
        ctx.assume(z3.And(EXP_S(sv.term) == EXP_S(shots.term), tot == SUM(EXP_S(shots.term)), VALID(sv.term), z3.Length(sv.term) >= 1))
        self_.f["shot_vector"], self_.f["total_shots"], self_.f["_frozen"] = sv, tot, True
        return None
    w2 = World(SHOTS, classes={"ShotCopies": {"shots": Int, "copies": Int},
                               "Shots": {"total_shots": Int, "shot_vector": SeqT(SC, tuple=True), "_frozen": Bool}},
               functions=["valid_int", "valid_tuple"], extra_builtins={"math.is_abstract": lambda it, a, k: False},
               modular={"Shots.__init__": mc_init})

    SCALED_R = z3.Function("scaled_vector", z3.SeqSort(SCs), z3.RealSort(), z3.SeqSort(SCs))   # pointwise (int(shots*k), copies), snoc-defined
    SCALED_I = z3.Function("scaled_vector_int", z3.SeqSort(SCs), z3.IntSort(), z3.SeqSort(SCs))
    OKS_R = z3.Function("all_scaled_positive", z3.SeqSort(SCs), z3.RealSort(), z3.BoolSort())   # every int(shots*k) >= 1, snoc-defined
    OKS_I = z3.Function("all_scaled_positive_int", z3.SeqSort(SCs), z3.IntSort(), z3.BoolSort())

    def kparts(k):
        """(SCALED, OKS, z3 scalar) for an int / float scalar value"""
        if isinstance(k, FloatV):
            return SCALED_R, OKS_R, k.t
        return SCALED_I, OKS_I, S._t(k)

    def scaled_defs(s, e, k):
        F, OK, kk = kparts(k)
        se = mks(trunc_mul(sh_s(e), k), cp_s(e))
        empty = z3.Empty(s.sort())
        return [F(empty, kk) == empty, F(z3.Concat(s, z3.Unit(e)), kk) == z3.Concat(F(s, kk), z3.Unit(se)),
                OK(empty, kk), OK(z3.Concat(s, z3.Unit(e)), kk) == z3.And(OK(s, kk), trunc_mul(sh_s(e), k) >= 1)]

    def scaled_vec(sv, k):
        if isinstance(sv, SeqV):
            F, OK, kk = kparts(k)
            return F(sv.term, kk)
        return [(trunc_mul(x[0], k), x[1]) for x in sv]

    def all_scaled_ok(o):
        sv, k = o.self.shot_vector, o.scalar
        if isinstance(sv, SeqV):
            F, OK, kk = kparts(k)
            return OK(sv.term, kk)
        return all(trunc_mul(x[0], k) >= 1 for x in sv)

    def mul_inv(v):
        sv = v.self.shot_vector.term
        i = v.comp_i
        F, OK, kk = kparts(v.scalar)
        done = z3.Extract(sv, 0, i)
        r = st(v.comp_r)
        return And(r == F(done, kk), VALID(r) == OK(done, kk), i >= 0, i <= z3.Length(sv))

    def mul_inv_ax(v):
        sv = v.self.shot_vector.term
        i = v.comp_i
        out = [z3.Extract(sv, 0, 0) == z3.Empty(sv.sort()), VALID(z3.Empty(sv.sort()))]
        for k in (i - 1, i):
            out.append(snoc_slice(sv, k))
            out.append(z3.Implies(z3.And(k >= 0, k < z3.Length(sv)), z3.And(*scaled_defs(z3.Extract(sv, 0, k), sv[k], v.scalar))))
            out.append(z3.Implies(z3.And(k >= 0, k < z3.Length(sv)), z3.And(sh_s(sv[k]) >= 1, cp_s(sv[k]) >= 1)))     # instance of valid_seq(sv)
        r = st(v.comp_r)
        sn = split_snoc(r)
        if sn is not None:
            out += valid_def(sn[0], sn[1])
        return out

    def mul_post_ax(o, r, nw):
        sv = o.self.shot_vector.term
        return [z3.Extract(sv, 0, z3.Length(sv)) == sv, scaled_expansion(sv, o.scalar)]

    def mul_ghost(ctx, a):
        sv = a.self.shot_vector.term
        link_valid(ctx, a.self.shot_vector)
        ctx.assume(z3.Extract(sv, 0, z3.Length(sv)) == sv)
        F, OK, kk = kparts(a.scalar)
        ctx.assume(z3.And(F(z3.Empty(sv.sort()), kk) == z3.Empty(sv.sort()), OK(z3.Empty(sv.sort()), kk)))

    MAP_R = z3.Function("scaled_executions", IS, z3.RealSort(), IS)          # [int(s*k) for s in per-execution list], snoc-defined
    MAP_I = z3.Function("scaled_executions_int", IS, z3.IntSort(), IS)

    def mparts(k):
        return (MAP_R, k.t) if isinstance(k, FloatV) else (MAP_I, S._t(k))

    def map_defs(s, y, k):
        M, kk = mparts(k)
        return [M(z3.Empty(IS), kk) == z3.Empty(IS), M(z3.Concat(s, z3.Unit(y)), kk) == z3.Concat(M(s, kk), z3.Unit(trunc_mul(y, k)))]

    def scaled_expansion(sv_term, k):
        """conclusion of the induction lemma expand-of-scaled: expanding the scaled vector == scaling every execution of the expansion"""
        F, OK, kk = kparts(k)
        M, _ = mparts(k)
        return z3.Implies(VALID(sv_term), EXP_S(F(sv_term, kk)) == M(EXP_S(sv_term), kk))

    def scaled_executions(o):
        sv, k = o.self.shot_vector, o.scalar
        if isinstance(sv, SeqV):
            M, kk = mparts(k)
            return M(EXP_S(sv.term), kk)
        return [trunc_mul(x, k) for x in expand(sv)]

    def mul_post(o, r, nw):
        return And(seq_eq(expand(r.shot_vector), expand_sc_of(scaled_vec(o.self.shot_vector, o.scalar))),
                   seq_eq(expand(r.shot_vector), scaled_executions(o)),                  # the per-execution list [int(s*k) ...]
                   r.total_shots == total(expand_sc_of(scaled_vec(o.self.shot_vector, o.scalar))))
    for lab, kt in (("int", Int), ("float", Float)):
        contracts.append(FnContract(w2, "Shots.__mul__", [
            Case(f"finite[any length]*{lab}", {"self": FiniteShots, "scalar": kt}, requires=lambda a: wf(a.self), ghost=mul_ghost,
                 loops={"comp0": LoopSpec(mul_inv, types={"comp_r": SeqT(SC)}, axioms=mul_inv_ax)},
                 ensures=mul_post, axioms=mul_post_ax, raises={"ValueError": lambda o: Not(all_scaled_ok(o))}, must_return=all_scaled_ok)]))

    # __rmul__ delegates: used through the contract of __mul__ just verified
    def mc_mul(it, args, kwargs):
        self_, k = args
        ctx = it.ctx
        if not (isinstance(k, FloatV) or S_is_int(k)):
            raise RaiseExc("TypeError")
        if self_.f["total_shots"] is None:
            return self_
        F, OK, kk = kparts(k)
        if not ctx.branch(OK(self_.f["shot_vector"].term, kk)):
            raise RaiseExc("ValueError")
        sv = fresh(ctx, SeqT(SC, tuple=True), "scaled_shot_vector")
        tot = z3.Int(ctx.fresh_name("scaled_total"))
        E = EXP_S(F(self_.f["shot_vector"].term, kk))
        ctx.assume(z3.And(EXP_S(sv.term) == E, tot == SUM(E)))
        return Rec(w3.classes["Shots"], {"total_shots": tot, "shot_vector": sv, "_frozen": True})

    def S_is_int(k):
        return isinstance(k, int) or (isinstance(k, z3.ArithRef) and k.is_int())
    w3 = World(SHOTS, classes={"ShotCopies": {"shots": Int, "copies": Int},
                               "Shots": {"total_shots": Int, "shot_vector": SeqT(SC, tuple=True), "_frozen": Bool}},
               functions=[], extra_builtins={"math.is_abstract": lambda it, a, k: False}, modular={"Shots.__mul__": mc_mul})
    for lab, kt in (("int", Int), ("float", Float)):
        contracts.append(FnContract(w3, "Shots.__rmul__", [
            Case(f"finite[any length]*{lab}", {"self": FiniteShots, "scalar": kt}, requires=lambda a: wf(a.self),
                 native_call=lambda mod, a: a["scalar"] * a["self"], ghost=lambda ctx, a: link_valid(ctx, a.self.shot_vector),
                 axioms=lambda o, r, nw: [scaled_expansion(o.self.shot_vector.term, o.scalar)],
                 ensures=mul_post, raises={"ValueError": lambda o: Not(all_scaled_ok(o))}, must_return=all_scaled_ok),
            Case(f"analytic*{lab}", {"self": AnalyticShots, "scalar": kt}, ensures=lambda o, r, nw: r is nw.self)]))

    # ---- constructor on sequences MIXING ints and (shots, copies) pairs, symbolic length --------------------------------------------
    from vf.pyvc.ext import XWorld, XInterp
    ItemDT = z3.Datatype("ShotsItem")
    ItemDT.declare("mk_item", ("is_pair", z3.BoolSort()), ("first", z3.IntSort()), ("second", z3.IntSort()))
    ItemS = ItemDT.create()
    it_pair, it_a, it_b, mk_item = ItemS.accessor(0, 0), ItemS.accessor(0, 1), ItemS.accessor(0, 2), ItemS.constructor(0)

    class MixedItem:
        """an element that is EITHER an int OR a (shots, copies) pair; resolved (path split on the tag) when it is bound to a name"""

        def __init__(self, term):
            self.term = term

    class ItemCodec:
        sort = ItemS

        @staticmethod
        def box(world, v):
            if isinstance(v, MixedItem):
                return v.term
            if isinstance(v, tuple) and len(v) == 2:
                return mk_item(z3.BoolVal(True), S._t(v[0]), S._t(v[1]))
            return mk_item(z3.BoolVal(False), S._t(v), z3.IntVal(1))

        @staticmethod
        def unbox(world, term):
            return MixedItem(term)
    ITEM = T("codec", ItemCodec)

    class MInterp(XInterp):
        def assign(self, t, v, env):
            if isinstance(v, MixedItem):
                v = (it_a(v.term), it_b(v.term)) if self.ctx.branch(it_pair(v.term)) else it_a(v.term)
            return super().assign(t, v, env)

        def b_all(self, args, kw, node):
            v = args[0]
            if isinstance(v, SeqV) and v.elem.kind == "bool":
                return ALLB(v.term)          # all(s ++ [b]) == (all(s) and b), all([]) == True: the snoc-defined conjunction
            return super().b_all(args, kw, node)
    wm = XWorld(SHOTS, classes={"ShotCopies": {"shots": Int, "copies": Int},
                                "Shots": {"total_shots": Int, "shot_vector": SeqT(SC, tuple=True), "_frozen": Bool}},
                functions=["valid_int", "valid_tuple"], extra_builtins={"math.is_abstract": lambda it, a, k: False})

    NORM = z3.Function("normalised_items", z3.SeqSort(ItemS), z3.SeqSort(PairS))      # ints become (s, 1): snoc-defined
    OKI = z3.Function("all_items_valid", z3.SeqSort(ItemS), z3.BoolSort())            # every int > 0 / every pair component > 0: snoc-defined

    def item_ok(e):
        return z3.If(it_pair(e), z3.And(it_a(e) > 0, it_b(e) > 0), it_a(e) > 0)

    def item_norm(e):
        return z3.If(it_pair(e), mkp(it_a(e), it_b(e)), mkp(it_a(e), z3.IntVal(1)))

    def item_defs(s, e):
        empty = z3.Empty(s.sort())
        return [NORM(empty) == z3.Empty(z3.SeqSort(PairS)), NORM(z3.Concat(s, z3.Unit(e))) == z3.Concat(NORM(s), z3.Unit(item_norm(e))),
                OKI(empty), OKI(z3.Concat(s, z3.Unit(e))) == z3.And(OKI(s), item_ok(e))]

    def mc_all_tuple_init_m(it, args, kwargs):
        """the (verified) contract of __all_tuple_init__ with validity as the snoc-defined predicate on pairs"""
        self_, shots = args
        ctx = it.ctx
        ctx.ghost["normalised"] = shots.term
        ctx.prove(S.to_z3(And(slen(shots) >= 1, VALID_P(shots.term), Not(self_.f.get("_frozen", False)))), "pre-call:Shots.__all_tuple_init__")
        sv = fresh(ctx, SeqT(SC, tuple=True), "shot_vector")
        tot = z3.Int(ctx.fresh_name("total_shots"))
        ctx.assume(z3.And(EXP_S(sv.term) == EXP_P(shots.term), tot == SUM(EXP_P(shots.term)), VALID(sv.term), z3.Length(sv.term) >= 1))
        self_.f["shot_vector"], self_.f["total_shots"] = sv, tot
        return None
    wm.modular["Shots.__all_tuple_init__"] = mc_all_tuple_init_m

    def mixed_terms(v):
        shots = v.shots.term
        return shots, v.comp_i, z3.Extract(shots, 0, v.comp_i)

    def chk_inv(v):            # comp0: [valid_int(s) or valid_tuple(s) for s in shots]
        shots, i, done = mixed_terms(v)
        r = v.comp_r.term if isinstance(v.comp_r, SeqV) else z3.Empty(z3.SeqSort(z3.BoolSort()))
        return And(ALLB(r) == OKI(done), z3.Length(r) == i, i >= 0, i <= z3.Length(shots))

    ALLB = z3.Function("all_true", z3.SeqSort(z3.BoolSort()), z3.BoolSort())         # snoc-defined conjunction

    def allb_defs(s, bv):
        return [ALLB(z3.Empty(z3.SeqSort(z3.BoolSort()))), ALLB(z3.Concat(s, z3.Unit(bv))) == z3.And(ALLB(s), bv)]

    def mixed_ax(v):
        shots, i, done = mixed_terms(v)
        out = [z3.Extract(shots, 0, 0) == z3.Empty(shots.sort())]
        for k in (i - 1, i):
            out.append(snoc_slice(shots, k))
            out.append(z3.Implies(z3.And(k >= 0, k < z3.Length(shots)), z3.And(*item_defs(z3.Extract(shots, 0, k), shots[k]))))
        r = v.comp_r.term if isinstance(v.comp_r, SeqV) else None
        sn = split_snoc(r) if r is not None else None
        if sn is not None:
            if r.sort() == z3.SeqSort(z3.BoolSort()):
                out += allb_defs(sn[0], sn[1])
            else:
                out += validp_def(sn[0], sn[1])
        out += [ALLB(z3.Empty(z3.SeqSort(z3.BoolSort()))), VALID_P(z3.Empty(z3.SeqSort(PairS))), OKI(z3.Empty(shots.sort())),
                NORM(z3.Empty(shots.sort())) == z3.Empty(z3.SeqSort(PairS))]
        return out

    def norm_inv(v):           # comp1: [s if isinstance(s, Sequence) else (s, 1) for s in shots]
        shots, i, done = mixed_terms(v)
        r = st(v.comp_r, PAIR)
        return And(r == NORM(done), VALID_P(r) == OKI(done), z3.Length(r) == i, i >= 0, i <= z3.Length(shots))

    def expand_mixed(v):
        if isinstance(v, SeqV):
            return EXP_P(NORM(v.term))
        out = []
        for x in v:
            out += [x[0]] * x[1] if isinstance(x, (tuple, list)) else [x]
        return out

    def items_ok(v):
        if isinstance(v, SeqV):
            return OKI(v.term)
        return all((isinstance(x, int) and not isinstance(x, bool) and x > 0) if not isinstance(x, (tuple, list))
                   else (len(x) == 2 and all(isinstance(y, int) and y > 0 for y in x)) for x in v)

    def mixed_ghost(ctx, a):
        shots = a.shots.term
        ctx.assume(z3.Extract(shots, 0, z3.Length(shots)) == shots)
        # the all(...) of the code is a universally quantified formula over the BOOLEAN list built by comp0; ALLB is its snoc-defined form
        # (ALLB(s) <=> every entry of s is true: induction lemma all-true below)

    def native_items(data):
        return [((int(x[1]), int(x[2])) if x[0] else int(x[1])) for x in data]

    def mixed_native(mod, args):
        args["shots"] = native_items(args["shots"])
        args["self"] = mod.Shots(args["shots"])
        return None

    def mixed_gen(rng, m):
        if rng is None:
            return m
        n = rng.choice([1, 1, 2, 3, 4, 5])
        return dict(m, shots=[(rng.random() < 0.5, rng.choice([-1, 0, 1, 2, 2, 3, 5]) if rng.random() < 0.25 else rng.choice([1, 2, 2, 3]),
                               rng.choice([0, 1, 1, 2, 3])) for _ in range(n)])
    MIXED = SeqT(ITEM)
    mixed_case = Case("shots:list-mixing-ints-and-pairs", {"self": fresh_self(), "shots": MIXED}, native_call=mixed_native, native_gen=mixed_gen,
                      ghost=mixed_ghost, requires=lambda a: slen(a.shots) >= 1,
                      loops={"comp0": LoopSpec(chk_inv, types={"comp_r": SeqT(Bool)}, axioms=mixed_ax),
                             "comp1": LoopSpec(norm_inv, types={"comp_r": SeqT(PAIR)}, axioms=mixed_ax)},
                      ensures=lambda o, r, nw: And(seq_eq(expand(nw.self.shot_vector), expand_mixed(o.shots)),
                                                   nw.self.total_shots == total(expand_mixed(o.shots)), valid_out(nw.self.shot_vector), nw.self._frozen),
                      raises={"ValueError": lambda o: Not(items_ok(o.shots))}, must_return=lambda o: items_ok(o.shots))
    mixed_case.interp_cls = MInterp
    contracts.append(FnContract(wm, "Shots.__init__", [mixed_case]))

    # ---- num_copies == len(expand) ----------------------------------------------------------------------------------------------------
    def sum_of_copies(it, args, kw):
        """sum(s.copies for s in shot_vector): the left fold of + over the copies fields IS the snoc-defined COPIES"""
        g = args[0]
        from vf.pyvc.interp import SymGen
        if isinstance(g, SymGen) and g.it.elem.kind == "rec" and it.same_term(S._t(g.val), cp_s(g.it.term[g.i])):
            return COPIES(g.it.term)
        return it.b_sum(args, kw, None) if not isinstance(g, (SymGen, SeqV)) else (_ for _ in ()).throw(Unsupp("sum over this generator"))
    w4 = World(SHOTS, classes={"ShotCopies": {"shots": Int, "copies": Int},
                               "Shots": {"total_shots": Int, "shot_vector": SeqT(SC, tuple=True), "_frozen": Bool}},
               functions=[], extra_builtins={"math.is_abstract": lambda it, a, k: False, "sum": sum_of_copies})
    HASH = z3.Function("hash_of_shot_vector", z3.SeqSort(SCs), z3.IntSort())       # hash(tuple): some function of the value
    w4.extra_builtins["hash"] = lambda it, a, k: HASH(a[0].term)

    def copies_len(sv):
        """conclusion of the induction lemma copies-len"""
        return z3.Implies(VALID(sv), COPIES(sv) == z3.Length(EXP_S(sv)))
    contracts.append(FnContract(w4, "Shots.num_copies", [
        Case("finite", {"self": FiniteShots}, ghost=lambda ctx, a: link_valid(ctx, a.self.shot_vector), requires=lambda a: wf(a.self),
             ensures=lambda o, r, nw: r == slen(expand(o.self.shot_vector)),
             axioms=lambda o, r, nw: [copies_len(o.self.shot_vector.term)]),
        Case("analytic", {"self": AnalyticShots}, ensures=lambda o, r, nw: r == 0)]))
    contracts.append(FnContract(w4, "Shots.__hash__", [
        # the hash is a function of the shot vector alone: equal objects (see __eq__) have equal hashes by congruence
        Case("finite", {"self": FiniteShots}, requires=lambda a: wf(a.self),
             ensures=lambda o, r, nw: (r == HASH(o.self.shot_vector.term)) if isinstance(o.self, Rec) else
             (r == hash(tuple(o.self.shot_vector)) and all(hash(nw.self) == hash(x) for x in [type(nw.self)(list(o.self.shot_vector))])))]))

    def expand_sc_of(v):
        return EXP_S(v) if isinstance(v, z3.ExprRef) else [x[0] for x in v for _ in range(x[1])]

    # ---- equality / hashing respect the canonical vector ------------------------------------------------------------------------------
    contracts.append(FnContract(w, "Shots.__eq__", [
        Case("finite==finite", {"self": FiniteShots, "other": FiniteShots}, requires=lambda a: And(wf(a.self), wf(a.other)),
             ensures=lambda o, r, nw: r == And(o.self.total_shots == o.other.total_shots,
                                               seq_eq(o.self.shot_vector.term if isinstance(o.self.shot_vector, SeqV) else o.self.shot_vector,
                                                      o.other.shot_vector.term if isinstance(o.other.shot_vector, SeqV) else o.other.shot_vector))),
        Case("finite==analytic", {"self": FiniteShots, "other": AnalyticShots}, requires=lambda a: wf(a.self),
             ensures=lambda o, r, nw: r == False),  # noqa: E712
        Case("finite==int", {"self": FiniteShots, "other": Int}, requires=lambda a: wf(a.self), ensures=lambda o, r, nw: r == False)]))  # noqa: E712
    def unique_canonical(A_, B_):
        """conclusion of the induction lemma canonical-unique (induction on the length of A_, for every B_)"""
        return z3.Implies(z3.And(CANON(A_), VALID(A_), CANON(B_), VALID(B_), EXP_S(A_) == EXP_S(B_)), A_ == B_)
    contracts.append(FnContract(w, "Shots.__eq__", [
        # for canonical valid vectors (what every constructor path produces: __all_tuple_init__/canonical-form, the one-entry vector of an int)
        # equality of the objects is equality of their expansions
        Case("finite==finite/equal-expansion", {"self": FiniteShots, "other": FiniteShots},
             requires=lambda a: And(wf(a.self), wf(a.other), canon_out(a.self.shot_vector), canon_out(a.other.shot_vector),
                                    valid_out(a.self.shot_vector), valid_out(a.other.shot_vector)),
             ensures=lambda o, r, nw: r == seq_eq(expand(o.self.shot_vector), expand(o.other.shot_vector)),
             axioms=lambda o, r, nw: [unique_canonical(o.self.shot_vector.term, o.other.shot_vector.term)])]))
    contracts.append(FnContract(w, "valid_int", [
        Case("int", {"s": Int}, ensures=lambda o, r, nw: r == (o.s > 0)),
        Case("float", {"s": Float}, ensures=lambda o, r, nw: r == False),  # noqa: E712
        Case("pair", {"s": PAIR}, ensures=lambda o, r, nw: r == False)]))  # noqa: E712
    contracts.append(FnContract(w, "valid_tuple", [
        Case("pair", {"s": PAIR}, ensures=lambda o, r, nw: r == And(o.s[0] > 0, o.s[1] > 0)),
        Case("triple", {"s": TupleT(Int, Int, Int)}, ensures=lambda o, r, nw: r == False),  # noqa: E712
        Case("int", {"s": Int}, ensures=lambda o, r, nw: r == False)]))  # noqa: E712

    def last_of(E):
        return E[z3.Length(E) - 1]

    def last_of_expand(s_, el):
        E = EXP_S(z3.Concat(s_, z3.Unit(el)))
        return z3.Implies(cp_s(el) >= 1, z3.And(z3.Length(E) >= 1, last_of(E) == sh_s(el)))

    def rep_cancel(P_, Q_, x_, n_, m_):
        return z3.Implies(z3.And(n_ >= 0, n_ <= m_, z3.Concat(P_, rep(x_, n_)) == z3.Concat(Q_, rep(x_, m_))), P_ == z3.Concat(Q_, rep(x_, m_ - n_)))

    def last_concat_rep(Q_, x_, k_):
        E = z3.Concat(Q_, rep(x_, k_))
        return z3.Implies(k_ >= 1, z3.And(z3.Length(E) >= 1, last_of(E) == x_))

    def unique_step_facts(A1, e1, B1, f1):
        """hypotheses of the induction step: the induction hypothesis at (A1, B1), the defining equations, instances of the helper lemmas,
        and the decomposition of a non-empty sequence into prefix ++ [last] (fresh names for the parts)"""
        SSs = z3.SeqSort(SCs)
        A2, B2 = z3.Consts("uA2 uB2", SSs)
        e3, f3 = z3.Consts("ue3 uf3", SCs)
        return [unique_canonical(A1, B1)] + exp_def(EXP_S, A1, e1, (sh_s, cp_s)) + exp_def(EXP_S, B1, f1, (sh_s, cp_s)) + valid_def(A1, e1) + valid_def(B1, f1) \
            + canon_def(A1, e1) + canon_def(B1, f1) + [
                last_of_expand(A1, e1), last_of_expand(B1, f1),
                rep_cancel(EXP_S(A1), EXP_S(B1), sh_s(e1), cp_s(e1), cp_s(f1)), rep_cancel(EXP_S(B1), EXP_S(A1), sh_s(e1), cp_s(f1), cp_s(e1)),
                last_concat_rep(EXP_S(B1), sh_s(e1), cp_s(f1) - cp_s(e1)), last_concat_rep(EXP_S(A1), sh_s(e1), cp_s(e1) - cp_s(f1)),
                z3.Implies(z3.Length(A1) >= 1, z3.And(A1 == z3.Concat(A2, z3.Unit(e3)), e3 == A1[z3.Length(A1) - 1])),
                z3.Implies(z3.Length(A1) == 0, A1 == z3.Empty(SSs)),
                z3.Implies(z3.Length(B1) >= 1, z3.And(B1 == z3.Concat(B2, z3.Unit(f3)), f3 == B1[z3.Length(B1) - 1])),
                z3.Implies(z3.Length(B1) == 0, B1 == z3.Empty(SSs)),
                last_of_expand(A2, e3), last_of_expand(B2, f3)] + valid_def(A2, e3) + valid_def(B2, f3) + exp_def(EXP_S, A2, e3, (sh_s, cp_s)) \
            + exp_def(EXP_S, B2, f3, (sh_s, cp_s))

    def scaling_lemmas(k):
        tag = "real" if isinstance(k, FloatV) else "int"
        F, OK, kk = kparts(k)
        M, _ = mparts(k)
        x_, n_, y_ = z3.Ints("lx ln ly")
        A_, B_ = z3.Consts("LA LB", IS)
        S_ = z3.Const("LS", z3.SeqSort(SCs))
        e_ = z3.Const("le", SCs)
        map_rep = lambda xx, nn: z3.Implies(nn >= 0, M(rep(xx, nn), kk) == rep(trunc_mul(xx, k), nn))
        map_cat = lambda a_, b_: M(z3.Concat(a_, b_), kk) == z3.Concat(M(a_, kk), M(b_, kk))
        return [
            (f"map-rep[{tag}]/base", [x_], map_rep(x_, z3.IntVal(0)), rep_def(x_, z3.IntVal(0)) + rep_def(trunc_mul(x_, k), z3.IntVal(0)) + map_defs(A_, y_, k)),
            (f"map-rep[{tag}]/step", [x_, n_], map_rep(x_, n_ + 1),
             [n_ >= 0, map_rep(x_, n_)] + rep_def(x_, n_ + 1) + rep_def(trunc_mul(x_, k), n_ + 1) + map_defs(rep(x_, n_), x_, k)),
            (f"map-concat[{tag}]/base", [], map_cat(A_, z3.Empty(IS)), map_defs(A_, y_, k)),
            (f"map-concat[{tag}]/step", [y_], map_cat(A_, z3.Concat(B_, z3.Unit(y_))), [map_cat(A_, B_)] + map_defs(z3.Concat(A_, B_), y_, k) + map_defs(B_, y_, k)),
            (f"expand-of-scaled[{tag}]/base", [], scaled_expansion(z3.Empty(z3.SeqSort(SCs)), k),
             scaled_defs(S_, e_, k) + exp_def(EXP_S, S_, e_, (sh_s, cp_s)) + map_defs(A_, y_, k)),
            (f"expand-of-scaled[{tag}]/step", [], scaled_expansion(z3.Concat(S_, z3.Unit(e_)), k),
             [scaled_expansion(S_, k), map_rep(sh_s(e_), cp_s(e_)), map_cat(EXP_S(S_), rep(sh_s(e_), cp_s(e_)))] + scaled_defs(S_, e_, k) + valid_def(S_, e_)
             + exp_def(EXP_S, S_, e_, (sh_s, cp_s)) + exp_def(EXP_S, F(S_, kk), mks(trunc_mul(sh_s(e_), k), cp_s(e_)), (sh_s, cp_s))),
        ]

    # ---- lemmas: induction proofs of the derived laws --------------------------------------------------------------------------
    x, a, b, y = z3.Ints("x a b y")
    A, B = z3.Consts("A B", IS)
    Sa, Sb = z3.Consts("Sa Sb", z3.SeqSort(SCs))
    e = z3.Const("e", SCs)
    e2 = z3.Const("e2", SCs)
    Pa = z3.Const("Pa", z3.SeqSort(PairS))
    pe = z3.Const("pe", PairS)
    lems = [
        ("rep-add/base", [x, a], rep(x, a + 0) == z3.Concat(rep(x, a), rep(x, z3.IntVal(0))), rep_def(x, z3.IntVal(0))),
        ("rep-add/step", [x, a, b], rep(x, a + (b + 1)) == z3.Concat(rep(x, a), rep(x, b + 1)),
         [a >= 0, b >= 0, rep(x, a + b) == z3.Concat(rep(x, a), rep(x, b))] + rep_def(x, a + b + 1) + rep_def(x, b + 1)),
        ("sum-concat/base", [x], sum_concat(A, z3.Empty(IS)), sum_def(A, x)),
        ("sum-concat/step", [y], sum_concat(A, z3.Concat(B, z3.Unit(y))), [sum_concat(A, B)] + sum_def(z3.Concat(A, B), y) + sum_def(B, y)),
        ("sum-rep/base", [x], SUM(rep(x, z3.IntVal(0))) == x * 0, rep_def(x, z3.IntVal(0)) + sum_def(A, x)),
        ("sum-rep/step", [x, a], SUM(rep(x, a + 1)) == x * (a + 1), [a >= 0, SUM(rep(x, a)) == x * a] + rep_def(x, a + 1) + sum_def(rep(x, a), x)),
        ("len-rep/base", [x], z3.Length(rep(x, z3.IntVal(0))) == 0, rep_def(x, z3.IntVal(0))),
        ("len-rep/step", [x, a], z3.Length(rep(x, a + 1)) == a + 1, [a >= 0, z3.Length(rep(x, a)) == a] + rep_def(x, a + 1)),
        ("expand-concat/base", [], exp_concat(EXP_S, Sa, z3.Empty(z3.SeqSort(SCs))), exp_def(EXP_S, Sa, e, (sh_s, cp_s))),
        ("expand-concat/step", [], exp_concat(EXP_S, Sa, z3.Concat(Sb, z3.Unit(e))),
         [exp_concat(EXP_S, Sa, Sb)] + exp_def(EXP_S, z3.Concat(Sa, Sb), e, (sh_s, cp_s)) + exp_def(EXP_S, Sb, e, (sh_s, cp_s))),
        ("expand-unit", [], EXP_S(z3.Unit(e)) == rep(sh_s(e), cp_s(e)), exp_def(EXP_S, z3.Empty(z3.SeqSort(SCs)), e, (sh_s, cp_s))),
        ("seq/snoc-slice", [a], snoc_slice(Sa, a), []),
        # VALID(s) => every element valid, by induction on s (snoc); the induction hypothesis is instantiated at the index
        ("valid-elementwise/step", [a], z3.Implies(z3.And(VALID(z3.Concat(Sa, z3.Unit(e))), a >= 0, a < z3.Length(Sa) + 1),
                                                     z3.And(sh_s(z3.Concat(Sa, z3.Unit(e))[a]) >= 1, cp_s(z3.Concat(Sa, z3.Unit(e))[a]) >= 1)),
         [z3.Implies(z3.And(VALID(Sa), a >= 0, a < z3.Length(Sa)), z3.And(sh_s(Sa[a]) >= 1, cp_s(Sa[a]) >= 1)),
          z3.Implies(z3.And(a >= 0, a < z3.Length(Sa)), z3.Concat(Sa, z3.Unit(e))[a] == Sa[a]),
          z3.Concat(Sa, z3.Unit(e))[z3.Length(Sa)] == e] + valid_def(Sa, e)),
        ("valid-elementwise-pairs/step", [a],
         z3.Implies(z3.And(VALID_P(z3.Concat(Pa, z3.Unit(pe))), a >= 0, a < z3.Length(Pa) + 1),
                    z3.And(sh_p(z3.Concat(Pa, z3.Unit(pe))[a]) >= 1, cp_p(z3.Concat(Pa, z3.Unit(pe))[a]) >= 1)),
         [z3.Implies(z3.And(VALID_P(Pa), a >= 0, a < z3.Length(Pa)), z3.And(sh_p(Pa[a]) >= 1, cp_p(Pa[a]) >= 1)),
          z3.Implies(z3.And(a >= 0, a < z3.Length(Pa)), z3.Concat(Pa, z3.Unit(pe))[a] == Pa[a]),
          z3.Concat(Pa, z3.Unit(pe))[z3.Length(Pa)] == pe] + validp_def(Pa, pe)),
        ("seq/nth-of-concat", [a], nth_concat(Sa, Sb, a), []),
        # elementwise validity => VALID, by induction on s (snoc)
        ("elementwise-valid/base", [], VALID(z3.Empty(z3.SeqSort(SCs))), valid_def(Sa, e)),
        ("elementwise-valid/step", [], z3.Implies(valid_seq(SeqV(z3.Concat(Sa, z3.Unit(e)), SC)), VALID(z3.Concat(Sa, z3.Unit(e)))),
         [z3.Implies(valid_seq(SeqV(Sa, SC)), VALID(Sa)), z3.Concat(Sa, z3.Unit(e))[z3.Length(Sa)] == e,
          z3.ForAll([a], z3.Implies(z3.And(a >= 0, a < z3.Length(Sa)), z3.Concat(Sa, z3.Unit(e))[a] == Sa[a]))] + valid_def(Sa, e)),
        # COPIES(s) == len(expand(s)) for valid s, by induction on s (snoc)
        ("copies-len/base", [], COPIES(z3.Empty(z3.SeqSort(SCs))) == z3.Length(EXP_S(z3.Empty(z3.SeqSort(SCs)))),
         copies_def(Sa, e) + exp_def(EXP_S, Sa, e, (sh_s, cp_s))),
        ("copies-len/step", [], copies_len(z3.Concat(Sa, z3.Unit(e))),
         [copies_len(Sa), len_rep(sh_s(e), cp_s(e))] + copies_def(Sa, e) + exp_def(EXP_S, Sa, e, (sh_s, cp_s)) + valid_def(Sa, e)),
        # scaling commutes with expansion, for an int scalar ki and a real scalar kr (three inductions each: over n, over B, over s)
    ] + [lm for kv in (z3.Int("ki"), FloatV(z3.Real("kr"))) for lm in scaling_lemmas(kv)] + [
        # canonical valid vectors are determined by their expansion: helper facts, then induction on len(A) (for all B)
        ("canonical-unique/last-of-expand", [], last_of_expand(Sa, e), exp_def(EXP_S, Sa, e, (sh_s, cp_s)) + rep_def(sh_s(e), cp_s(e))),
        ("canonical-unique/rep-cancel", [x, a, b], rep_cancel(A, B, x, a, b), [rep_add(x, b - a, a)]),
        ("canonical-unique/last-of-concat-rep", [x, a], last_concat_rep(A, x, a), rep_def(x, a)),
        ("canonical-unique/base", [], z3.Implies(z3.And(VALID(z3.Concat(Sb, z3.Unit(e))), EXP_S(z3.Empty(z3.SeqSort(SCs))) == EXP_S(z3.Concat(Sb, z3.Unit(e)))), z3.BoolVal(False)),
         exp_def(EXP_S, Sb, e, (sh_s, cp_s)) + valid_def(Sb, e) + [last_of_expand(Sb, e)]),
        ("canonical-unique/step", [], unique_canonical(z3.Concat(Sa, z3.Unit(e)), z3.Concat(Sb, z3.Unit(e2))), unique_step_facts(Sa, e, Sb, e2)),
        # equal objects have equal hashes: __eq__ (contract: equal shot vectors) and __hash__ (contract: a function of the shot vector)
        ("eq-implies-equal-hash", [], z3.Implies(Sa == Sb, HASH(Sa) == HASH(Sb)), []),
        ("seq/nth-of-snoc", [a], z3.And(z3.Implies(z3.And(a >= 0, a < z3.Length(Sa)), z3.Concat(Sa, z3.Unit(e))[a] == Sa[a]),
                                        z3.Concat(Sa, z3.Unit(e))[z3.Length(Sa)] == e), []),
    ]
    def repair_small(rng, m):
        """as `repair`, with small copy counts when the data is randomly generated (the native views expand the vectors)"""
        out = repair(rng, m)
        if rng is not None:
            for k, v in out.items():
                if isinstance(v, dict) and v.get("__class__") == "Shots" and v.get("total_shots") is not None:
                    sv = [dict(e, shots=1 + e["shots"] % 40, copies=1 + e["copies"] % 5) for e in v["shot_vector"]]
                    out[k] = dict(v, shot_vector=sv, total_shots=sum(e["shots"] * e["copies"] for e in sv), _frozen=True)
                elif isinstance(v, int) and not isinstance(v, bool):
                    out[k] = v % 7 - 1
                elif isinstance(v, float):
                    out[k] = rng.choice([0.5, 1.5, 0.25, 2.0, 1.75, 0.1, -1.0, 3.0])
        return out
    for fc in contracts:
        for cs in fc.cases:
            if cs.native_gen is None:
                cs.native_gen = repair if fc.world is w else repair_small
        plan.fn_under_contract(fc.world.file, fc.qualname)
        for ob, cs in zip(obligations_for("C44", fc, tier), fc.cases):
            # the deepening contracts fall back to their bounded stand-in when an edit takes the function out of reach (DESIGN 2.6)
            plan.add(with_standin(ob, fc, cs, tries=600, budget_s=25) if fc.world is not w else ob)
    for nm, vs, goal, assm in lems:
        plan.add(lemma("C44", nm, vs, goal, assumptions=assm))
    plan.size_bounds = ["Shots.__mul__/finite[1..3 entries]: kept as a second, quantifier-free derivation next to the proof for vectors of any length"]
    plan.assumed_contracts = ["hash(tuple) is a function of the tuple's value (uninterpreted HASH)"]
    plan.trusted_base += ["validity / canonical form / scaling / expansion are snoc-defined spec functions; their elementwise readings and the laws used "
                          "(elementwise <=> VALID, copies == len(expand), expansion of the scaled vector == scaled expansion, canonical vectors are determined by "
                          "their expansion) are proved as explicit induction lemmas (base + step obligations)"]
    plan.unverified = ["abstract (traced) shot values", "Shots.__hash__ is specified as a function of the shot vector (what the code computes): an edit that hashes "
                       "another function of the value (e.g. total_shots) would be reported although equal objects would still hash equally",
                       "bool values inside shot sequences (bool is an int in python)", "Shots([]) raises IndexError instead of the documented ValueError (F9, noted)"]
    return plan
