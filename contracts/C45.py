"""C45 Wires behave as an ordered set of labels.

Abstract view: a Wires object IS its label sequence `_labels`, a duplicate-free finite sequence over an abstract label sort
(labels are used by the code only through ==, hash and membership: an UNINTERPRETED sort with equality is the exact
abstraction).  Label sequences have symbolic length; python sets are z3 arrays label -> Bool; the link set(seq), len(set),
tuple(set) is the axiomatic sequence theory of vf/pyvc/aseq.py.  Every public method of pennylane/wires.py:Wires is executed
symbolically from the real AST and its postcondition is stated over the view (membership for the set operations, positions
for index / indices / map / subset, pointwise equality for == / hash).
"""
import z3

from vf.common import Plan, Obligation, Outcome, DISCHARGED, FAULT
from vf.pyvc.engine import (World, T, Int, Bool, Label, LabelSort, NoneT, RecT, SeqT, SetT, MapT, ListT, Rec, SeqV, SetV, MapV, PyList,
                            Unsupp, RaiseExc)
from vf.pyvc.contract import FnContract, Case, LoopSpec, obligations_for, lemma
from vf.pyvc import aseq as AQ
from vf.pyvc import spec as S
from vf.pyvc.spec import And, Or, Not, Implies, If

WIRES = "pennylane/wires.py"
W = RecT("Wires")
LSEQ = SeqT(Label, ax=True, tuple=True)          # tuple of labels
LLIST = SeqT(Label, ax=True, tuple=False)        # list of labels
LSET = SetT(Label)


def build(tier, seed):
    plan = Plan("C45", level="proof")
    plan.explanation = ("Wires methods are executed symbolically from the real AST on label sequences of SYMBOLIC length over an "
                        "uninterpreted label sort; sets are arrays label->Bool; postconditions are stated over the label view "
                        "(set semantics by membership, order by positions) and discharged by z3 with the axiomatic finite-sequence "
                        "theory (Dafny prelude encoding).")
    plan.trusted_base = ["vf/pyvc encoder (Python subset semantics)", "vf/pyvc/aseq.py finite-sequence axioms (checked against the "
                         "python list model on every run by aseq.selfcheck)", "z3 arrays / EUF / quantifier instantiation"]
    plan.assumptions = ["A-labels: wire labels are hashable, non-str, compared only by ==/hash (equal labels have equal hashes): abstract sort",
                        "A-python-containers: inputs are python tuples / lists / sets / Wires (math.get_interface is not 'jax'; "
                        "0-dim numpy inputs are out of scope)",
                        "tuple(set) / iteration over a set yields SOME duplicate-free enumeration of the set (order unspecified)"]
    plan.dropped = ["docstrings, annotations", "jax / numpy array branches of _process and _unflatten", "__repr__/__str__/__array__"]

    w = World(WIRES, classes={"Wires": {"_labels": LSEQ, "_hash": Int}}, functions=["_process"],
              extra_builtins={"math.get_interface": lambda it, a, k: "python-container",
                              "math.is_abstract": lambda it, a, k: False})
    TH = w.aseq(Label)
    HASH = z3.Function("hash_of_labels", TH.sort, z3.IntSort())      # hash(tuple): a function of the sequence (congruence)
    w.extra_builtins["hash"] = lambda it, a, k: (HASH(a[0].term) if isinstance(a[0], SeqV) else z3.Function("hash_of_label", LabelSort, z3.IntSort())(a[0]))

    bad = AQ.selfcheck()

    def axioms_ok():
        if bad:
            return Outcome(FAULT, "python", f"sequence axioms violated in the list model: {bad}")
        return Outcome(DISCHARGED, "python", f"{len(TH.axiom_names)} axioms; transcription check on random lists passed")
    plan.add(Obligation("C45/aseq:axioms-hold-in-list-model", "lemma", axioms_ok, bounded=True,
                        sample="each axiom of the sequence theory evaluated on random small python lists"))

    # ---- polymorphic view helpers -----------------------------------------------------------------------------------
    def sym(*xs):
        return any(isinstance(x, (z3.ExprRef, SeqV, SetV, Rec, MapV)) for x in xs)

    def seq(v):
        """label sequence of a Wires / tuple / list value: aseq term (symbolic) or python list (native)"""
        if isinstance(v, Rec):
            return seq(v.f["_labels"])
        if isinstance(v, SeqV):
            return v.term
        if isinstance(v, z3.ExprRef):
            return v
        if isinstance(v, (PyList,)):
            return TH.of(list(v.items))
        if isinstance(v, tuple) and any(isinstance(x, z3.ExprRef) for x in v):
            return TH.of(list(v))
        if hasattr(v, "labels"):
            return list(v.labels)
        return list(v)

    def ln(s):
        s = seq(s)
        return TH.LEN(s) if isinstance(s, z3.ExprRef) else len(s)

    def at(s, k):
        s = seq(s)
        return TH.AT(s, k) if isinstance(s, z3.ExprRef) else s[k]

    def mem(s, x):
        if isinstance(s, SetV):
            return z3.Select(s.term, x) if s.term is not None else False
        if isinstance(s, (set, frozenset)):
            return x in s
        s = seq(s)
        return TH.MEM(s, x) if isinstance(s, z3.ExprRef) else (x in s)

    def nodup(s):
        s = seq(s)
        return TH.NODUP(s) if isinstance(s, z3.ExprRef) else (len(set(s)) == len(s))

    def forall_label(f, *universe):
        if sym(*universe):
            x = z3.Const("x_lab", LabelSort)
            return z3.ForAll([x], f(x))
        u = set()
        for c in universe:
            u |= set(c) if isinstance(c, (set, frozenset)) else set(seq(c))
        return all(f(x) for x in u)

    def forall_pos(s, f):
        """forall 0 <= k < len(s): f(k)"""
        if sym(s) or isinstance(seq(s), z3.ExprRef):
            k = z3.Int("k_pos")
            return z3.ForAll([k], z3.Implies(z3.And(0 <= k, k < ln(s)), f(k)))
        return all(f(k) for k in range(ln(s)))

    def same_seq(a, b):
        a, b = seq(a), seq(b)
        if isinstance(a, z3.ExprRef) or isinstance(b, z3.ExprRef):
            return TH.EQ(a, b)
        return list(a) == list(b)

    def is_wires(r):
        return isinstance(r, Rec) and r.cls.name == "Wires" if sym(r) else type(r).__name__ == "Wires"

    def wires_ok(r):
        """representation invariant of a produced Wires object: duplicate-free labels"""
        return And(is_wires(r), nodup(r))

    def set_result(r, pred, *universe):
        """r is a Wires object whose labels are duplicate-free and exactly the labels satisfying pred"""
        return And(wires_ok(r), forall_label(lambda x: mem(r, x) == pred(x), r, *universe))

    WOK = dict(where=lambda v: nodup(v))

    def Wt(hash_none=True):
        return T("rec", "Wires", where=lambda v: And(nodup(v), True if v.f["_hash"] is None else v.f["_hash"] == HASH(seq(v))),
                 override={"_hash": NoneT} if hash_none else {})

    def fix_wires(rng, m):
        """native repair: label sequences of Wires inputs are duplicate-free; cached hashes are the real hashes"""
        def fix(d):
            if isinstance(d, dict) and d.get("__class__") == "Wires":
                labs = list(dict.fromkeys(d["_labels"]))
                return {"__class__": "Wires", "_labels": labs, "_hash": None if d.get("_hash") is None else hash(tuple(labs))}
            if isinstance(d, list):
                return [fix(x) for x in d]
            if isinstance(d, tuple):
                return tuple(fix(x) for x in d)
            return d
        return {k: fix(v) for k, v in m.items()}

    contracts = []

    class NSlike:
        def __init__(self, items):
            self.list_of_wires = items

    # ---- _process -----------------------------------------------------------------------------------------------------
    contracts.append(FnContract(w, "_process", [
        Case("tuple-or-list", {"wires": LSEQ},
             ensures=lambda o, r, n: And(same_seq(r, o.wires), nodup(r)),
             raises={"WireError": lambda o: Not(nodup(o.wires))}, must_return=lambda o: nodup(o.wires)),
        Case("set", {"wires": LSET},
             ensures=lambda o, r, n: And(nodup(r), forall_label(lambda x: mem(r, x) == mem(o.wires, x), r, o.wires))),
        Case("single-label", {"wires": Label},
             ensures=lambda o, r, n: And(ln(r) == 1, at(r, 0) == o.wires)),
    ]))

    # ---- construction / basic protocol --------------------------------------------------------------------------------------
    contracts.append(FnContract(w, "Wires.__init__", [
        Case("from-sequence", {"self": T("rec", "Wires"), "wires": LSEQ},
             ensures=lambda o, r, n: And(same_seq(n.self, o.wires), nodup(n.self), n.self.f["_hash"] is None if sym(n.self) else n.self._hash is None),
             raises={"WireError": lambda o: Not(nodup(o.wires))}, must_return=lambda o: nodup(o.wires),
             native_call=lambda mod, a: (a["self"].__init__(a["wires"]), a["self"])[1]),
        Case("from-set", {"self": T("rec", "Wires"), "wires": LSET},
             ensures=lambda o, r, n: And(nodup(n.self), forall_label(lambda x: mem(n.self, x) == mem(o.wires, x), n.self, o.wires)),
             native_call=lambda mod, a: (a["self"].__init__(a["wires"]), a["self"])[1]),
        Case("None", {"self": T("rec", "Wires"), "wires": NoneT}, ensures=lambda o, r, n: False,
             raises={"TypeError": lambda o: True}),
    ]))

    contracts.append(FnContract(w, "Wires.__contains__", [
        Case("label", {"self": Wt(), "item": Label}, ensures=lambda o, r, n: r == mem(o.self, o.item), native_gen=fix_wires)]))
    contracts.append(FnContract(w, "Wires.__len__", [
        Case("len", {"self": Wt()}, ensures=lambda o, r, n: r == ln(o.self), native_gen=fix_wires)]))
    contracts.append(FnContract(w, "Wires.__eq__", [
        Case("wires", {"self": Wt(), "other": Wt()}, ensures=lambda o, r, n: r == same_seq(o.self, o.other), native_gen=fix_wires),
        Case("wires-hashes-cached", {"self": Wt(False), "other": Wt(False)}, ensures=lambda o, r, n: r == same_seq(o.self, o.other),
             native_gen=fix_wires),
        Case("tuple", {"self": Wt(), "other": LSEQ}, ensures=lambda o, r, n: r == same_seq(o.self, o.other), native_gen=fix_wires),
    ]))
    contracts.append(FnContract(w, "Wires.__hash__", [
        Case("uncached", {"self": Wt()}, ensures=lambda o, r, n: And(r == HASH(seq(o.self)), n.self.f["_hash"] == r, same_seq(n.self, o.self))
             if sym(o.self) else (r == hash(tuple(o.self.labels)) and n.self.labels == o.self.labels), native_gen=fix_wires),
        Case("cached", {"self": Wt(False)}, ensures=lambda o, r, n: And(r == HASH(seq(o.self)), same_seq(n.self, o.self))
             if sym(o.self) else (r == hash(tuple(o.self.labels)) and n.self.labels == o.self.labels), native_gen=fix_wires),
    ]))

    # ---- index ------------------------------------------------------------------------------------------------------------------
    contracts.append(FnContract(w, "Wires.index", [
        Case("label", {"self": Wt(), "wire": Label},
             ensures=lambda o, r, n: And(0 <= r, r < ln(o.self), at(o.self, r) == o.wire),
             raises={"WireError": lambda o: Not(mem(o.self, o.wire))}, must_return=lambda o: mem(o.self, o.wire), native_gen=fix_wires),
        Case("wires", {"self": Wt(), "wire": Wt()},
             ensures=lambda o, r, n: And(ln(o.wire) == 1, 0 <= r, r < ln(o.self), at(o.self, r) == at(o.wire, 0)),
             raises={"WireError": lambda o: Or(ln(o.wire) != 1, Not(mem(o.self, at(o.wire, 0))))},
             must_return=lambda o: And(ln(o.wire) == 1, mem(o.self, at(o.wire, 0))), native_gen=fix_wires),
    ]))

    # ---- set operations ------------------------------------------------------------------------------------------------------
    def setop(name, pred, right=False):
        """self <op> other for other: Wires / tuple / set; pred(in_self, in_other)"""
        cases = []
        for lab, t in (("wires", Wt()), ("tuple", LSEQ), ("set", LSET)):
            cases.append(Case(lab, {"self": Wt(), "other": t},
                              requires=(lambda v: nodup(v.other)) if lab == "tuple" else None,
                              ensures=lambda o, r, n: set_result(r, lambda x: pred(mem(o.self, x), mem(o.other, x)), o.self, o.other),
                              native_gen=fix_wires))
        # a sequence with duplicates is rejected
        cases.append(Case("tuple-with-duplicates", {"self": Wt(), "other": LSEQ}, requires=lambda v: Not(nodup(v.other)),
                          ensures=lambda o, r, n: False, raises={"WireError": lambda o: True}, native_gen=fix_wires))
        return FnContract(w, f"Wires.{name}", cases)

    OPS = {"union": lambda a, b: Or(a, b), "intersection": lambda a, b: And(a, b), "difference": lambda a, b: And(a, Not(b)),
           "symmetric_difference": lambda a, b: a != b if sym(a, b) else (bool(a) != bool(b))}
    for nm, p in OPS.items():
        contracts.append(setop(nm, p))
    for nm, p in (("__or__", OPS["union"]), ("__ror__", OPS["union"]), ("__and__", OPS["intersection"]), ("__rand__", OPS["intersection"]),
                  ("__sub__", OPS["difference"]), ("__rsub__", lambda a, b: And(b, Not(a))),
                  ("__xor__", OPS["symmetric_difference"]), ("__rxor__", OPS["symmetric_difference"])):
        contracts.append(setop(nm, p))

    # ---- positions: __getitem__, indices, map, subset ----------------------------------------------------------------------------
    TI = w.aseq(Int)
    ISEQ = SeqT(Int, ax=True)

    def iseq(v):
        if isinstance(v, SeqV):
            return v.term
        if isinstance(v, PyList):
            return TI.of([x if isinstance(x, z3.ExprRef) else z3.IntVal(x) for x in v.items])
        return v if isinstance(v, z3.ExprRef) else list(v)

    def iln(v):
        v = iseq(v)
        return TI.LEN(v) if isinstance(v, z3.ExprRef) else len(v)

    def iat(v, k):
        v = iseq(v)
        return TI.AT(v, k) if isinstance(v, z3.ExprRef) else v[k]

    def forall_ipos(s, f):
        if sym(s) or isinstance(iseq(s), z3.ExprRef):
            k = z3.Int("k_ipos")
            return z3.ForAll([k], z3.Implies(z3.And(0 <= k, k < iln(s)), f(k)))
        return all(f(k) for k in range(iln(s)))

    def exists_ipos(s, f):
        return Not(forall_ipos(s, lambda k: Not(f(k))))

    def pyat(s, i):
        """python indexing s[i] with negative wrap (caller guarantees -len <= i < len)"""
        if isinstance(i, z3.ExprRef) or isinstance(seq(s), z3.ExprRef):
            return at(s, If(i >= 0, i, i + ln(s)))
        return seq(s)[i]

    contracts.append(FnContract(w, "Wires.__getitem__", [
        Case("int", {"self": Wt(), "idx": Int},
             ensures=lambda o, r, n: r == pyat(o.self, o.idx),
             raises={"IndexError": lambda o: Or(o.idx >= ln(o.self), o.idx < -ln(o.self))},
             must_return=lambda o: And(o.idx < ln(o.self), o.idx >= -ln(o.self)), native_gen=fix_wires)]))
    contracts.append(FnContract(w, "Wires.contains_wires", [
        Case("wires", {"self": Wt(), "wires": Wt()},
             ensures=lambda o, r, n: r == forall_label(lambda x: Implies(mem(o.wires, x), mem(o.self, x)), o.self, o.wires), native_gen=fix_wires),
        Case("not-wires", {"self": Wt(), "wires": LSEQ}, ensures=lambda o, r, n: r == False, native_gen=fix_wires)]))   # noqa: E712
    contracts.append(FnContract(w, "Wires.toset", [
        Case("set", {"self": Wt()}, ensures=lambda o, r, n: forall_label(lambda x: mem(r, x) == mem(o.self, x), o.self), native_gen=fix_wires)]))
    contracts.append(FnContract(w, "Wires.tolist", [
        Case("list", {"self": Wt()}, ensures=lambda o, r, n: same_seq(r, o.self), native_gen=fix_wires)]))
    contracts.append(FnContract(w, "Wires.labels", [
        Case("tuple", {"self": Wt()}, ensures=lambda o, r, n: same_seq(r, o.self), native_gen=fix_wires)]))

    idx_comp = LoopSpec(inv=lambda v: And(iln(v.comp_r) == v.comp_i,
                                         forall_ipos(v.comp_r, lambda k: And(0 <= iat(v.comp_r, k), iat(v.comp_r, k) < ln(v.self),
                                                                             at(v.self, iat(v.comp_r, k)) == at(v.comp_it, k)))),
                        types={"comp_r": ISEQ})

    def indices_post(o, r):
        return And(iln(r) == ln(o.wires), forall_pos(o.wires, lambda k: And(0 <= iat(r, k), iat(r, k) < ln(o.self),
                                                                            at(o.self, iat(r, k)) == at(o.wires, k))))
    contracts.append(FnContract(w, "Wires.indices", [
        Case("list-of-labels", {"self": Wt(), "wires": LLIST}, loops={"comp0": idx_comp},
             ensures=lambda o, r, n: indices_post(o, r),
             raises={"WireError": lambda o: Not(forall_pos(o.wires, lambda k: mem(o.self, at(o.wires, k))))},
             must_return=lambda o: forall_pos(o.wires, lambda k: mem(o.self, at(o.wires, k))), native_gen=fix_wires),
        Case("wires", {"self": Wt(), "wires": Wt()}, loops={"comp0": idx_comp},
             ensures=lambda o, r, n: indices_post(o, r),
             raises={"WireError": lambda o: Not(forall_pos(o.wires, lambda k: mem(o.self, at(o.wires, k))))},
             must_return=lambda o: forall_pos(o.wires, lambda k: mem(o.self, at(o.wires, k))), native_gen=fix_wires),
        Case("single-label", {"self": Wt(), "wires": Label},
             ensures=lambda o, r, n: And(iln(r) == 1, at(o.self, iat(r, 0)) == o.wires, 0 <= iat(r, 0), iat(r, 0) < ln(o.self)),
             raises={"WireError": lambda o: Not(mem(o.self, o.wires))}, must_return=lambda o: mem(o.self, o.wires), native_gen=fix_wires),
    ]))

    def mdom(m, x):
        return z3.Select(m.dom, x) if isinstance(m, MapV) else (x in m)

    def mval(m, x):
        return z3.Select(m.val, x) if isinstance(m, MapV) else m[x]

    def map_ok(o):
        """every label has an image and the images are pairwise distinct"""
        if sym(o.self):
            a, b = z3.Ints("m_a m_b")
            return And(forall_pos(o.self, lambda k: mdom(o.wire_map, at(o.self, k))),
                       z3.ForAll([a, b], z3.Implies(z3.And(0 <= a, a < b, b < ln(o.self)),
                                                    mval(o.wire_map, at(o.self, a)) != mval(o.wire_map, at(o.self, b)))))
        labs = seq(o.self)
        return all(x in o.wire_map for x in labs) and len({o.wire_map[x] for x in labs}) == len(labs)

    contracts.append(FnContract(w, "Wires.map", [
        Case("dict", {"self": Wt(), "wire_map": MapT(Label, Label)},
             loops={0: LoopSpec(inv=lambda v: forall_pos(TH.TAKE(seq(v.self), v._i0) if sym(v.self) else seq(v.self)[:v._i0],
                                                         lambda k: mdom(v.wire_map, at(v.self, k)))),
                    "comp0": LoopSpec(inv=lambda v: And(ln(v.comp_r) == v.comp_i,
                                                        forall_pos(v.comp_r, lambda k: at(v.comp_r, k) == mval(v.wire_map, at(v.self, k)))),
                                      types={"comp_r": LLIST})},
             ensures=lambda o, r, n: And(wires_ok(r), ln(r) == ln(o.self),
                                         forall_pos(o.self, lambda k: at(r, k) == mval(o.wire_map, at(o.self, k)))),
             raises={"WireError": lambda o: Not(map_ok(o))}, must_return=map_ok, native_gen=fix_wires)]))

    def sel_ok(o, pb):
        """all (normalised) indices are valid positions"""
        if pb:
            return Or(ln(o.self) > 0, iln(o.indices) == 0)
        return forall_ipos(o.indices, lambda k: And(iat(o.indices, k) < ln(o.self), iat(o.indices, k) >= -ln(o.self)))

    def norm_idx(o, k, pb):
        i = iat(o.indices, k)
        return S.mod(i, ln(o.self)) if pb else i

    def subset_post(o, r, pb):
        return And(wires_ok(r), ln(r) == iln(o.indices), forall_ipos(o.indices, lambda k: at(r, k) == pyat(o.self, norm_idx(o, k, pb))))

    def subset_distinct(o, pb):
        """the selected positions are pairwise different"""
        if sym(o.self) or isinstance(iseq(o.indices), z3.ExprRef):
            a, b = z3.Ints("s_a s_b")
            return z3.ForAll([a, b], z3.Implies(z3.And(0 <= a, a < b, b < iln(o.indices)),
                                                pyat(o.self, norm_idx(o, a, pb)) != pyat(o.self, norm_idx(o, b, pb))))
        n_ = ln(o.self)
        pos = [(i % n_) if (pb or i < 0) else i for i in iseq(o.indices)] if n_ else list(iseq(o.indices))
        return len(set(pos)) == len(pos)

    sub_loop = LoopSpec(inv=lambda v: forall_ipos(TI.TAKE(iseq(v.indices), v._i0) if isinstance(iseq(v.indices), z3.ExprRef) else iseq(v.indices)[:v._i0],
                                                  lambda k: iat(v.indices, k) <= ln(v.self)))
    sub_gen = LoopSpec(inv=lambda v: And(ln(v.comp_r) == v.comp_i,
                                         forall_pos(v.comp_r, lambda k: at(v.comp_r, k) == pyat(v.self, iat(v.comp_it, k)))),
                       types={"comp_r": LLIST})
    mod_comp = LoopSpec(inv=lambda v: And(iln(v.comp_r) == v.comp_i, Or(v.comp_i == 0, ln(v.self) > 0),
                                          forall_ipos(v.comp_r, lambda k: iat(v.comp_r, k) == S.mod(iat(v.comp_it, k), ln(v.self)))),
                        types={"comp_r": ISEQ})
    contracts.append(FnContract(w, "Wires.subset", [
        Case("list-of-indices", {"self": Wt(), "indices": ISEQ, "periodic_boundary": T("const", False)},
             loops={0: sub_loop, "comp0": sub_gen},
             ensures=lambda o, r, n: subset_post(o, r, False),
             raises={"WireError": lambda o: Or(Not(sel_ok(o, False)), Not(subset_distinct(o, False))),
                     "IndexError": lambda o: Not(sel_ok(o, False))},
             must_return=lambda o: And(sel_ok(o, False), subset_distinct(o, False)), native_gen=fix_wires),
        Case("list-of-indices-periodic", {"self": Wt(), "indices": ISEQ, "periodic_boundary": T("const", True)},
             loops={0: sub_loop, "comp0": mod_comp, "comp1": sub_gen},
             ensures=lambda o, r, n: subset_post(o, r, True),
             raises={"ZeroDivisionError": lambda o: Not(sel_ok(o, True)), "WireError": lambda o: Not(subset_distinct(o, True))},
             must_return=lambda o: And(sel_ok(o, True), subset_distinct(o, True)), native_gen=fix_wires),
        Case("single-index", {"self": Wt(), "indices": Int, "periodic_boundary": T("const", False)},
             ensures=lambda o, r, n: And(wires_ok(r), ln(r) == 1, at(r, 0) == pyat(o.self, o.indices)),
             raises={"WireError": lambda o: Or(o.indices >= ln(o.self), o.indices < -ln(o.self)),
                     "IndexError": lambda o: Or(o.indices >= ln(o.self), o.indices < -ln(o.self))},
             must_return=lambda o: And(o.indices < ln(o.self), o.indices >= -ln(o.self)), native_gen=fix_wires),
    ]))

    # ---- all_wires / shared_wires / unique_wires: lists of 1..K Wires objects (K concrete), label sequences unbounded ------------
    K = 3 if tier == "quick" else 4
    plan.size_bounds.append(f"list_of_wires of all_wires / shared_wires / unique_wires: 1..{K} Wires objects per call (each label sequence of unbounded symbolic length)")

    def ws(o):
        v = o.list_of_wires
        return list(v.items) if isinstance(v, PyList) else list(v)

    def count_in(o, x):
        """number of the Wires objects that contain x"""
        tot = 0
        for wv in ws(o):
            m = mem(wv, x)
            tot = tot + (z3.If(m, 1, 0) if isinstance(m, z3.ExprRef) else int(bool(m)))
        return tot

    def prefix_of(a, r):
        """the labels of a are the first len(a) labels of r"""
        return And(ln(a) <= ln(r), forall_pos(a, lambda k: at(r, k) == at(a, k)))

    def first_occurrence_order(o, r):
        """r lists labels in the order of their first appearance in the concatenation of the inputs"""
        cat = None
        for wv in ws(o):
            cat = seq(wv) if cat is None else (TH.APP(cat, seq(wv)) if isinstance(cat, z3.ExprRef) else cat + seq(wv))
        if isinstance(cat, z3.ExprRef):
            x, y = z3.Const("o_x", LabelSort), z3.Const("o_y", LabelSort)
            return z3.ForAll([x, y], z3.Implies(z3.And(mem(r, x), mem(r, y)),
                                                (TH.IDX(seq(r), x) < TH.IDX(seq(r), y)) == (TH.IDX(cat, x) < TH.IDX(cat, y))))
        rl = seq(r)
        return all((rl.index(x) < rl.index(y)) == (cat.index(x) < cat.index(y)) for x in rl for y in rl)

    for k in range(1, K + 1):
        LW = ListT(Wt(), k)
        contracts.append(FnContract(w, "Wires.all_wires", [
            Case(f"{k}-wires-objects", {"list_of_wires": LW, "sort": T("const", False)}, requires=lambda v: And(*[nodup(x) for x in ws(v)]),
                 ensures=lambda o, r, n: And(set_result(r, lambda x: count_in(o, x) >= 1, *ws(o)), prefix_of(ws(o)[0], r),
                                             first_occurrence_order(o, r)),
                 native_gen=fix_wires, size_bounded=True)]))

        def shared_inv(v):
            first = v.list_of_wires.items[0]
            taken = TH.TAKE(seq(first), v._i1)
            a_, b_ = z3.Ints("sh_a sh_b")
            sh, fs = seq(v.shared), seq(first)
            return And(nodup(v.shared), forall_label(lambda x: mem(v.shared, x) == And(TH.MEM(taken, x), mem(v.intersecting_wires, x)), first),
                       # order: shared is a subsequence of the first object (positions in `first` strictly increase, all below i)
                       forall_pos(v.shared, lambda k: And(TH.MEM(fs, at(v.shared, k)), TH.IDX(fs, at(v.shared, k)) < v._i1)),
                       z3.ForAll([a_, b_], z3.Implies(z3.And(0 <= a_, a_ < b_, b_ < TH.LEN(sh)),
                                                      TH.IDX(fs, TH.AT(sh, a_)) < TH.IDX(fs, TH.AT(sh, b_))),
                                 patterns=[z3.MultiPattern(TH.AT(sh, a_), TH.AT(sh, b_))]))
        contracts.append(FnContract(w, "Wires.shared_wires", [
            Case(f"{k}-wires-objects", {"list_of_wires": LW}, loops={1: LoopSpec(inv=shared_inv, types={"shared": LLIST})},
                 requires=lambda v: And(*[nodup(x) for x in ws(v)]),
                 ensures=lambda o, r, n, k=k: And(set_result(r, lambda x: count_in(o, x) == k, *ws(o)),
                                                  # order: the shared labels appear in the order of the first object
                                                  first_occurrence_order(NSlike(ws(o)[:1]), r)),
                 native_gen=fix_wires, size_bounded=True)]))

        def unique_inv(j):
            def inv(v):
                prev = v.list_of_wires.items[:j]
                cur = v.list_of_wires.items[j]
                taken = TH.TAKE(seq(cur), getattr(v, f"_i{3 + j}"))
                return And(nodup(v.unique),
                           forall_label(lambda x: mem(v.unique, x) == And(mem(v.seen_once, x),
                                                                          Or(TH.MEM(taken, x), *[mem(p_, x) for p_ in prev])), cur))
            return inv
        contracts.append(FnContract(w, "Wires.unique_wires", [
            Case(f"{k}-wires-objects", {"list_of_wires": LW}, requires=lambda v: And(*[nodup(x) for x in ws(v)]),
                 loops={3 + j: LoopSpec(inv=unique_inv(j), types={"unique": LLIST}) for j in range(k)},
                 ensures=lambda o, r, n: set_result(r, lambda x: count_in(o, x) == 1, *ws(o)),
                 native_gen=fix_wires, size_bounded=True)]))

    for lab, t in (("wires", Wt()), ("tuple", LSEQ), ("label", Label)):
        def other_mem(o, x, lab=lab):
            return (x == o.other) if lab == "label" else mem(o.other, x)
        contracts.append(FnContract(w, "Wires.__add__", [
            Case(lab, {"self": Wt(), "other": t}, requires=(lambda v: nodup(v.other)) if lab == "tuple" else None,
                 ensures=lambda o, r, n, om=other_mem: And(set_result(r, lambda x: Or(mem(o.self, x), om(o, x)), o.self,
                                                                      *([] if lab == "label" else [o.other])),
                                                           prefix_of(o.self, r)),
                 native_gen=fix_wires)]))
        contracts.append(FnContract(w, "Wires.__radd__", [
            Case(lab, {"self": Wt(), "other": t}, requires=(lambda v: nodup(v.other)) if lab == "tuple" else None,
                 ensures=lambda o, r, n, om=other_mem, lab=lab: And(set_result(r, lambda x: Or(mem(o.self, x), om(o, x)), o.self,
                                                                               *([] if lab == "label" else [o.other])),
                                                                    (at(r, 0) == o.other) if lab == "label" else prefix_of(o.other, r)),
                 native_gen=fix_wires)]))

    # ================================================================================================================================
    # lift: a list of a SYMBOLIC NUMBER of Wires objects (axiomatic sequence of Wires records, each with a label sequence of symbolic length)
    # ================================================================================================================================
    import ast as _ast
    from vf.pyvc.ext import XInterp, with_standin
    from vf.pyvc.interp import SymGen, IDENTITY
    wl = World(WIRES, classes={"Wires": {"_labels": LSEQ, "_hash": Int}}, functions=["_process"],
               extra_builtins={"math.get_interface": lambda it, a, k: "python-container", "math.is_abstract": lambda it, a, k: False})
    wl.aseq(Label)
    TW = wl.aseq(RecT("Wires"))
    WDT = wl.classes["Wires"].datatype(wl)
    LAB = WDT.accessor(0, 0)                                             # the label sequence of a Wires record
    FLAT = z3.Function("all_labels_in_order", TW.sort, TH.sort)          # concatenation of the label sequences (snoc-defined)
    ANYMEM = z3.Function("in_some_object", TW.sort, LabelSort, z3.BoolSort())
    ALLMEM = z3.Function("in_every_object", TW.sort, LabelSort, z3.BoolSort())

    def flat_defs(s_, w_, x_):
        snoc = TW.SNOC(s_, w_)
        return [FLAT(TW.EMPTY) == TH.EMPTY, FLAT(snoc) == TH.APP(FLAT(s_), LAB(w_)),
                z3.Not(ANYMEM(TW.EMPTY, x_)), ANYMEM(snoc, x_) == z3.Or(ANYMEM(s_, x_), TH.MEM(LAB(w_), x_)),
                ALLMEM(TW.EMPTY, x_), ALLMEM(snoc, x_) == z3.And(ALLMEM(s_, x_), TH.MEM(LAB(w_), x_))]

    class LInterp(XInterp):
        """generators over the list of Wires objects are read by their meaning: `(w if isinstance(w, Wires) else Wires(w) for w in L)` is L itself for
        Wires elements; `itertools.chain(*(w.labels for w in L))` is the concatenation FLAT(L); `[w.toset() for w in L]` folded with `&` is ALLMEM"""

        def sym_comp(self, n, env):
            if len(n.generators) == 1 and not n.generators[0].ifs:
                itv = self.eval(n.generators[0].iter, env)
                if isinstance(itv, SymGen) and itv.val is IDENTITY:
                    g = n.generators[0]
                    env["__gen_src__"] = itv.it
                    n2 = type(n)(elt=n.elt, generators=[_ast.comprehension(target=g.target, iter=_ast.Name(id="__gen_src__", ctx=_ast.Load()), ifs=[], is_async=0)])
                    _ast.copy_location(n2, n)
                    _ast.fix_missing_locations(n2)
                    return super().sym_comp(n2, env)
            return super().sym_comp(n, env)

        def e_Call(self, n, env):
            if isinstance(n.func, _ast.Attribute) and n.func.attr == "chain" and len(n.args) == 1 and isinstance(n.args[0], _ast.Starred) and not n.keywords:
                g = self.eval(n.args[0].value, env)
                if isinstance(g, SymGen) and isinstance(g.val, SeqV) and self.same_term(g.val.term, LAB(TW.AT(g.it.term, g.i))):
                    return SeqV(FLAT(g.it.term), Label, False)
                raise Unsupp("itertools.chain(*...) of this argument")
            return super().e_Call(n, env)

        def sym_map(self, it_, i, val):
            if isinstance(val, SetV) and val.term is not None and self.same_term(val.term, TH.SETOF(LAB(TW.AT(it_.term, i)))):
                return SetsOf(it_)                       # [w.toset() for w in L]: kept symbolic as "the label sets of L"
            return super().sym_map(it_, i, val)

    class SetsOf:
        """the list of the label sets of the objects of a symbolic list of Wires"""

        def __init__(self, lst):
            self.lst = lst

    def reduce_model(it, args, kw):
        f, xs = args[0], args[1]
        if not isinstance(xs, SetsOf) or len(args) != 2:
            raise Unsupp("functools.reduce of this argument")
        a_, b_ = z3.Const("red_a", TH.SetSort), z3.Const("red_b", TH.SetSort)
        probe = it.call(f, [SetV(a_, Label), SetV(b_, Label)], {})
        if not (isinstance(probe, SetV) and it.same_term(probe.term, z3.SetIntersect(a_, b_))):
            raise Unsupp("functools.reduce with a function that is not the intersection")
        L = xs.lst.term
        if not it.ctx.branch(TW.LEN(L) >= 1):
            raise RaiseExc("TypeError")                 # reduce() of an empty sequence with no initial value
        inter = z3.Const(it.ctx.fresh_name("intersection"), TH.SetSort)
        x = z3.Const("red_x", LabelSort)
        # left fold of & over the label sets: x is in the result iff it is in every set -- the snoc-defined ALLMEM
        it.ctx.assume(z3.ForAll([x], z3.Select(inter, x) == ALLMEM(L, x), patterns=[z3.Select(inter, x)]))
        it.ctx.havocked = True
        return SetV(inter, Label)
    wl.extra_builtins["functools.reduce"] = reduce_model

    def each_nodup(v):
        k = z3.Int("k_obj")
        return z3.ForAll([k], z3.Implies(z3.And(0 <= k, k < TW.LEN(v.term)), TH.NODUP(LAB(TW.AT(v.term, k)))), patterns=[TW.AT(v.term, k)])
    LWS = SeqT(RecT("Wires"), ax=True, where=each_nodup)

    def fix_list(rng, m):
        out = fix_wires(rng, m)
        return out

    def native_flat(lst):
        return [x for wobj in lst for x in wobj.labels]

    def all_wires_post(o, r, n):
        if isinstance(o.list_of_wires, SeqV):
            F = FLAT(o.list_of_wires.term)
            x, y = z3.Const("o_x", LabelSort), z3.Const("o_y", LabelSort)
            order = z3.ForAll([x, y], z3.Implies(z3.And(mem(r, x), mem(r, y)), (TH.IDX(seq(r), x) < TH.IDX(seq(r), y)) == (TH.IDX(F, x) < TH.IDX(F, y))))
            return And(set_result(r, lambda x_: TH.MEM(F, x_)), order)
        return type(r).__name__ == "Wires" and list(r.labels) == list(dict.fromkeys(native_flat(o.list_of_wires)))
    lifted = [FnContract(wl, "Wires.all_wires", [
        Case("any-number-of-wires-objects", {"list_of_wires": LWS, "sort": T("const", False)}, ensures=all_wires_post, native_gen=fix_list)])]

    def first_labels(v):
        return LAB(TW.AT(v.term, 0))

    def shared_inv_l(v):
        fs = first_labels(v.list_of_wires)
        taken = TH.TAKE(fs, v._i1)
        a_, b_ = z3.Ints("sh_a sh_b")
        sh = seq(v.shared)
        return And(nodup(v.shared), forall_label(lambda x: mem(v.shared, x) == And(TH.MEM(taken, x), mem(v.intersecting_wires, x)), v.list_of_wires),
                   forall_pos(v.shared, lambda k: And(TH.MEM(fs, at(v.shared, k)), TH.IDX(fs, at(v.shared, k)) < v._i1)),
                   z3.ForAll([a_, b_], z3.Implies(z3.And(0 <= a_, a_ < b_, b_ < TH.LEN(sh)), TH.IDX(fs, TH.AT(sh, a_)) < TH.IDX(fs, TH.AT(sh, b_))),
                             patterns=[z3.MultiPattern(TH.AT(sh, a_), TH.AT(sh, b_))]))

    def shared_post_l(o, r, n):
        if isinstance(o.list_of_wires, SeqV):
            L = o.list_of_wires.term
            fs = first_labels(o.list_of_wires)
            x, y = z3.Const("o_x", LabelSort), z3.Const("o_y", LabelSort)
            order = z3.ForAll([x, y], z3.Implies(z3.And(mem(r, x), mem(r, y)), (TH.IDX(seq(r), x) < TH.IDX(seq(r), y)) == (TH.IDX(fs, x) < TH.IDX(fs, y))))
            return And(set_result(r, lambda x_: And(TH.MEM(fs, x_), ALLMEM(L, x_))), order)
        objs = list(o.list_of_wires)
        return type(r).__name__ == "Wires" and list(r.labels) == [x for x in objs[0].labels if all(x in w_.labels for w_ in objs)]

    def llen(v):
        return TW.LEN(v.term) if isinstance(v, SeqV) else len(v)
    lifted.append(FnContract(wl, "Wires.shared_wires", [
        Case("any-number-of-wires-objects", {"list_of_wires": LWS},
             loops={0: LoopSpec(inv=lambda v: True), 1: LoopSpec(inv=shared_inv_l, types={"shared": LLIST})},
             ensures=shared_post_l, raises={"TypeError": lambda o: llen(o.list_of_wires) == 0}, must_return=lambda o: llen(o.list_of_wires) >= 1,
             native_gen=fix_list)]))

    # ---- string labels: the isinstance(wires, str) branch of _process (a string is ONE label, never iterated over) ---------------------------
    class SInterp(XInterp):
        def is_kind(self, v, nm):
            if isinstance(v, z3.ExprRef) and v.get_id() in self.ctx.ghost.get("str_labels", ()):
                return nm in ("str", "Hashable")
            return super().is_kind(v, nm)

        def _is_str(self, v):
            return isinstance(v, z3.ExprRef) and v.get_id() in self.ctx.ghost.get("str_labels", ())

        def _chars(self, as_tuple):
            # iterating over a string yields its characters: SOME sequence of labels of unknown length (nothing is known about it)
            self.ctx.havocked = True
            return SeqV(z3.Const(self.ctx.fresh_name("characters"), TH.sort), Label, as_tuple)

        def b_tuple(self, args, kw, node):
            if args and self._is_str(args[0]):
                return self._chars(True)
            return super().b_tuple(args, kw, node)

        def b_list(self, args, kw, node):
            if args and self._is_str(args[0]):
                return self._chars(False)
            return super().b_list(args, kw, node)

        def to_set(self, v):
            if self._is_str(v):
                return super().to_set(self._chars(False))
            return super().to_set(v)

    def str_label(ctx, nm):
        c = z3.Const(ctx.fresh_name(nm), LabelSort)
        ctx.ghost.setdefault("str_labels", set()).add(c.get_id())
        # a one-element set has one element (the cardinality function is otherwise only axiomatised through sequences)
        ctx.assume(TH.CARDSET(z3.SetAdd(z3.EmptySet(LabelSort), c)) == 1)
        return c
    STR = T("build", str_label, gen=lambda rng: rng.choice(["aux", "q1", "wire-7", ""]))
    str_cases = [FnContract(w, "_process", [
        Case("string-label", {"wires": STR}, ensures=lambda o, r, n: And(ln(r) == 1, at(r, 0) == o.wires))]),
        FnContract(w, "Wires.__init__", [
            Case("from-string-label", {"self": T("rec", "Wires"), "wires": STR},
                 ensures=lambda o, r, n: And(ln(n.self) == 1, at(n.self, 0) == o.wires),
                 native_call=lambda mod, a: (a["self"].__init__(a["wires"]), a["self"])[1])])]
    for fc in str_cases:
        for case in fc.cases:
            case.interp_cls = SInterp
        for ob, case in zip(obligations_for("C45", fc, tier), fc.cases):
            plan.add(ob)

    for fc in lifted:
        for case in fc.cases:
            case.interp_cls = LInterp
        for ob, case in zip(obligations_for("C45", fc, tier), fc.cases):
            plan.add(with_standin(ob, fc, case, tries=500, budget_s=20))
        plan.fn_under_contract(WIRES, fc.qualname)
    xs_, ws_ = z3.Const("lx", LabelSort), z3.Const("lw", WDT)
    Ls_ = z3.Const("lL", TW.sort)
    plan.add(lemma("C45", "flat-members/base", [xs_], TH.MEM(FLAT(TW.EMPTY), xs_) == ANYMEM(TW.EMPTY, xs_), assumptions=flat_defs(Ls_, ws_, xs_) + TH.axioms))
    plan.add(lemma("C45", "flat-members/step", [xs_], TH.MEM(FLAT(TW.SNOC(Ls_, ws_)), xs_) == ANYMEM(TW.SNOC(Ls_, ws_), xs_),
                   assumptions=[TH.MEM(FLAT(Ls_), xs_) == ANYMEM(Ls_, xs_)] + flat_defs(Ls_, ws_, xs_) + TH.axioms))

    for fc in contracts:
        for ob in obligations_for("C45", fc, tier):
            plan.add(ob)
        plan.fn_under_contract(WIRES, fc.qualname)
    plan.size_bounds.append("unique_wires stays size-bounded (1..K Wires objects): the lift needs sequences of set values as loop data plus a snoc-defined "
                            "'in exactly one object' predicate related across the two loops (membership of the prefix vs. of the whole list) -- not done; "
                            "all_wires and shared_wires are ALSO proved for a list of any number of Wires objects")
    plan.assumed_contracts = ["itertools.chain(*(w.labels for w in L)) is the concatenation of the label sequences in list order (snoc-defined FLAT); "
                              "functools.reduce(lambda a, b: a & b, [w.toset() for w in L]) contains x iff every object contains x (snoc-defined ALLMEM; the "
                              "engine checks that the folded function is the set intersection), TypeError on an empty list",
                              "dict.fromkeys(seq): duplicate-free, same members, first-occurrence order (as before)",
                              "iterating over a string yields some sequence of characters (nothing else is assumed about it)"]
    plan.unverified = ["jax / numpy inputs", "select_random (numpy RNG)", "all_wires(sort=True)", "list_of_wires elements that are not Wires objects "
                       "(the Wires(wires) conversion inside all_wires)"]
    return plan
