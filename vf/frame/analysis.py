"""The frame analysis.

Abstract value of an expression (class AV):
    ids    set of parameter tokens "P<k>": the value MAY BE an object that existed before the call and is reachable from parameter k
           (the parameter itself, one of its internal lists, an element of them, ...)
    elems  tokens its elements / attributes may be (a FRESH list of the input tape's operators has ids == {} and elems == {"P0"})
    fresh  the value is certainly a new object (ids is empty)
    unknown the value came out of a callee / method the analysis has no contract for and that was handed input state:
           a write through it is UNCLASSIFIED (counted, never a violation)
    kind   "list" | "scalar" | "?"   (only used to decide whether `x += y` on a name is an in-place update)

Statements are interpreted flow-sensitively (environment name -> AV; branches joined; loops iterated to a fixpoint; nested function
bodies analysed in the environment of their definition).  A WRITE SITE is: a call of a mutating method (append, extend, insert, pop,
remove, sort, reverse, clear, update, add, discard, setdefault, popitem, ...), `x[i] = v`, `x[i] op= v`, `del x[i]`, `x.a = v`, `x.a op= v`,
`del x.a`, `x op= v` on a possibly-list name, setattr/delattr, a call of an in-repo function whose verified summary says it mutates the
argument, and a call of one of the library functions known to mutate an argument (random.shuffle, heapq.*).

Callee effects: in-repo functions that can be resolved statically (same module / `from x import f` of a pennylane module) get a
SUMMARY computed by this analysis from their body (which parameters are written, what the result may alias); every other callee that
receives input state is ASSUMED pure with an unknown result (recorded, with counts).  Attribute and method contracts of QuantumScript
(`operations` / `measurements` return the internal lists, `circuit` is fresh, `copy()` is a fresh script sharing its elements) are in
ATTR_CONTRACTS / METHOD_CONTRACTS and are themselves checked against the bodies in core/qscript.py by contracts/C18.py.
"""
from __future__ import annotations

import ast
import glob
import os
from dataclasses import dataclass, field

MUTATORS = {"append", "extend", "insert", "pop", "remove", "sort", "reverse", "clear", "update", "add", "discard", "setdefault", "popitem",
            "appendleft", "popleft", "extendleft", "intersection_update", "difference_update", "symmetric_difference_update", "__setitem__",
            "__delitem__", "__setattr__", "__iadd__"}
LIB_ARG_MUTATORS = {"random.shuffle": [0], "shuffle": [0], "heapq.heappush": [0], "heapq.heappop": [0], "heapq.heapify": [0], "heappush": [0],
                    "heappop": [0], "heapify": [0], "bisect.insort": [0], "insort": [0], "np.random.shuffle": [0], "operator.setitem": [0],
                    "operator.delitem": [0], "operator.iadd": [0]}
FRESH_BUILTINS = {"list", "tuple", "dict", "set", "frozenset", "sorted", "reversed", "enumerate", "zip", "map", "filter", "iter", "deque",
                  "defaultdict", "OrderedDict", "Counter", "chain", "product", "combinations", "permutations", "islice", "zip_longest", "copy",
                  "deepcopy", "partial", "reduce", "accumulate", "groupby", "starmap", "tee", "cycle", "repeat"}
ELEMENT_BUILTINS = {"min", "max", "next", "getattr"}          # return one of the elements / attributes of their argument
SCALAR_BUILTINS = {"len", "int", "float", "complex", "str", "bool", "repr", "hash", "id", "isinstance", "issubclass", "callable", "sum", "any", "all",
                   "abs", "round", "range", "print", "type", "hasattr", "divmod", "pow", "ord", "chr", "format", "slice", "vars", "dir", "super"}
# attributes whose value is immutable (numbers, strings, Wires, Shots, tuples of numbers) or is (re)computed on access
SCALAR_ATTRS = {"shots", "num_params", "num_wires", "wires", "batch_size", "name", "hash", "num_preps", "output_dim", "samples_computational_basis",
                "is_sampled", "all_sampled", "total_shots", "has_partitioned_shots", "shot_vector", "id", "label", "ndim_params", "num_wires", "arithmetic_depth",
                "is_hermitian", "shape", "dtype", "ndim", "size", "T", "real", "imag", "__name__", "__class__", "__doc__", "numeric_type", "return_type",
                "grad_method", "has_matrix", "has_decomposition", "has_generator", "batched", "par_info", "data", "work_wires", "control_wires",
                "target_wires", "control_values", "basis", "pauli_rep", "is_verified_hermitian", "resource_params", "resource_keys", "reset", "postselect",
                "meas_uid", "mv", "z", "scalar", "exponent", "coeffs", "num_terms"}
LIST_ATTRS = {"operations", "measurements", "_ops", "_measurements", "trainable_params", "_trainable_params", "observables", "circuit", "ops", "operands",
              "diagonalizing_gates", "_prep", "_obs_sharing_wires", "_obs_sharing_wires_id"}
# (ids/elems relation, kind) of an attribute read on a value that carries input state
ATTR_CONTRACTS = {"circuit": "fresh", "observables": "fresh", "operations": "alias", "measurements": "alias", "_ops": "alias", "_measurements": "alias",
                  "trainable_params": "alias", "_trainable_params": "alias"}
# result of a method call on a value that carries input state: "fresh" (new object whose elements may be input state), "elem" (one of its
# elements), "scalar", "self" (may be the receiver itself)
METHOD_CONTRACTS = {"copy": "fresh", "__copy__": "fresh", "__deepcopy__": "fresh", "items": "fresh", "keys": "fresh", "values": "fresh", "get": "elem",
                    "index": "scalar", "count": "scalar", "tolist": "fresh", "toarray": "fresh", "bind_new_parameters": "fresh", "map_wires": "fresh",
                    "expand": "fresh", "decomposition": "fresh", "compute_decomposition": "fresh", "simplify": "unknown", "map_to_standard_wires": "self",
                    "get_parameters": "fresh", "matrix": "scalar", "eigvals": "scalar", "terms": "fresh", "queue": "self", "adjoint": "fresh",
                    "pow": "fresh", "generator": "fresh", "label": "scalar", "get_operation": "fresh", "split": "fresh", "join": "scalar",
                    "startswith": "scalar", "endswith": "scalar", "lower": "scalar", "upper": "scalar", "format": "scalar", "__class__": "fresh",
                    "intersection": "fresh", "union": "fresh", "difference": "fresh", "issubset": "scalar", "toset": "fresh", "subset": "fresh",
                    "indices": "scalar", "contains_wires": "scalar", "numpy": "scalar", "item": "scalar", "astype": "fresh", "reshape": "fresh",
                    "flatten": "fresh", "isdisjoint": "scalar", "diagonalizing_gates": "fresh", "shape": "scalar", "numeric_type": "scalar",
                    "process_samples": "scalar", "process_state": "scalar", "process_counts": "scalar", "process_density_matrix": "scalar"}


def star(tokens):
    """tokens of the state REACHABLE from values with the given tokens"""
    return frozenset(t if t.endswith("*") else t + "*" for t in tokens)


def param_index(tok):
    return int(tok.rstrip("*")[1:])


@dataclass(frozen=True)
class AV:
    """ids / elems: every pre-existing object the value / its elements MAY be.  dids / delems (subsets): those for which the analysis has
    a contract ("classified"); the rest came out of callees without contract that were handed input state ("unclassifiable")."""
    ids: frozenset = frozenset()
    elems: frozenset = frozenset()
    fresh: bool = False
    kind: str = "?"
    dids: frozenset = None
    delems: frozenset = None
    items: tuple = None            # tuple / list display of known length: abstract value per position (for `a, b = f(x)`)

    def __post_init__(self):
        if self.dids is None:
            object.__setattr__(self, "dids", self.ids)
        if self.delems is None:
            object.__setattr__(self, "delems", self.elems)

    @property
    def tokens(self):
        return self.ids | self.elems

    @property
    def unknown(self):
        return bool(self.ids - self.dids)

    @property
    def eunknown(self):
        return bool(self.elems - self.delems)

    def join(self, other):
        if other is None:
            return self
        items = None
        if self.items is not None and other.items is not None and len(self.items) == len(other.items):
            items = tuple(a.join(b) for a, b in zip(self.items, other.items))
        return AV(self.ids | other.ids, self.elems | other.elems, self.fresh and other.fresh, self.kind if self.kind == other.kind else "?",
                  self.dids | other.dids, self.delems | other.delems, items)

    def reachable(self, kind="?"):
        """state reachable from this value, excluding the value itself: what was put into a NEW container, the internal lists and
        elements of a pre-existing object"""
        toks, dtoks = self.elems | star(self.ids), self.delems | star(self.dids)
        return AV(toks, star(toks), False, kind, dtoks, star(dtoks))

    def element(self, pos=None):
        """a value drawn from this one (indexing, iteration, unpacking)"""
        if self.items is not None:
            if pos is not None and 0 <= pos < len(self.items):
                return self.items[pos]
            if pos is None and self.items:
                out = None
                for it in self.items:
                    out = it.join(out)
                return out
        return self.reachable()

    def hits(self, k, definite=True):
        src = self.dids if definite else self.ids
        return {t for t in src if param_index(t) == k}


OTHER = AV(kind="scalar")


def fresh_of(*vals, kind="?"):
    """a NEW object whose elements / parts may be the given values"""
    toks = frozenset().union(*[v.ids | v.elems for v in vals]) if vals else frozenset()
    dtoks = frozenset().union(*[v.dids | v.delems for v in vals]) if vals else frozenset()
    return AV(frozenset(), toks, True, kind, frozenset(), dtoks)


def unknown_of(*vals):
    """result of a callee without contract that was handed these values: may be / contain any of them, unclassifiably"""
    toks = frozenset().union(*[v.tokens for v in vals]) if vals else frozenset()
    toks = toks | star(toks)
    return AV(toks, toks, False, "?", frozenset(), frozenset())


@dataclass
class WriteSite:
    ordinal: int
    lineno: int
    kind: str          # "method:append", "setitem", "setattr", "augassign", "delitem", "call-mutates-arg", ...
    target: str        # source text of the written object
    value: AV
    func: str          # qualname of the function the site is in (nested functions included)

    def verdict(self, token):
        """'violation' | 'unclassified' | 'ok' for the frame contract `nothing reachable from parameter <token> is modified`"""
        v = self.value
        k = param_index(token)
        definite, possible = bool(v.hits(k, True)), bool(v.hits(k, False))
        if not possible:
            return "ok"
        if self.kind == "augassign-name" and v.kind != "list":
            return "unclassified" if v.kind == "?" else "ok"
        return "violation" if definite else "unclassified"


@dataclass
class Summary:
    mutates: set = field(default_factory=set)        # parameter indices: the function may write the argument object ITSELF (list.pop on it, ...)
    mutates_reach: set = field(default_factory=set)  # ... may write state reachable from it (its internal lists, its elements)
    unclassified: set = field(default_factory=set)   # ... may write through an unclassifiable value
    returns: AV = OTHER                               # in terms of tokens "P<k>"
    sites: list = field(default_factory=list)
    assumed: list = field(default_factory=list)      # (callee text, lineno): callees assumed pure that received parameter state
    unsupported: list = field(default_factory=list)  # statements / expressions outside the subset (treated conservatively)


class ModuleIndex:
    """resolves function names of a repo file to their definitions (same module, or imported from a pennylane module)"""

    _cache: dict = {}

    def __init__(self, repo, rel):
        self.repo, self.rel = repo, rel
        self.tree = ast.parse(open(os.path.join(repo, rel)).read())
        self.defs = {}
        self.classes = {}
        self.imports = {}
        for n in self.tree.body:
            self._scan(n)

    def _scan(self, n):
        if isinstance(n, (ast.FunctionDef, ast.AsyncFunctionDef)):
            self.defs[n.name] = n
        elif isinstance(n, ast.ClassDef):
            self.classes[n.name] = n
        elif isinstance(n, ast.ImportFrom) and n.module is not None or isinstance(n, ast.ImportFrom):
            mod = self._abs_module(n)
            for a in n.names:
                self.imports[a.asname or a.name] = (mod, a.name)
        elif isinstance(n, (ast.If, ast.Try)):
            for b in list(n.body) + list(getattr(n, "orelse", [])):
                self._scan(b)

    def _abs_module(self, n):
        if n.level == 0:
            return n.module or ""
        pkg = self.rel[:-3].split("/")
        if pkg[-1] == "__init__":
            pkg = pkg[:-1]
        base = pkg[:len(pkg) - n.level]
        return ".".join(base + ([n.module] if n.module else []))

    @classmethod
    def get(cls, repo, rel):
        key = (repo, rel, os.stat(os.path.join(repo, rel)).st_mtime_ns)
        if key not in cls._cache:
            cls._cache[key] = ModuleIndex(repo, rel)
        return cls._cache[key]

    def resolve(self, name, depth=0):
        """-> (ModuleIndex, FunctionDef) of a plain function called by `name`, or None"""
        if name in self.defs:
            return self, self.defs[name]
        if name in self.imports and depth < 4:
            mod, orig = self.imports[name]
            if not mod.startswith("pennylane"):
                return None
            for cand in (mod.replace(".", "/") + ".py", mod.replace(".", "/") + "/__init__.py"):
                if os.path.exists(os.path.join(self.repo, cand)):
                    try:
                        return ModuleIndex.get(self.repo, cand).resolve(orig, depth + 1)
                    except (SyntaxError, OSError):
                        return None
        return None


def dotted(n):
    if isinstance(n, ast.Name):
        return n.id
    if isinstance(n, ast.Attribute):
        b = dotted(n.value)
        return None if b is None else b + "." + n.attr
    return None


def is_transform_decorator(d):
    if isinstance(d, ast.Name):
        return d.id == "transform"
    if isinstance(d, ast.Attribute):
        return d.attr == "transform"
    if isinstance(d, ast.Call):
        f = d.func
        nm = f.id if isinstance(f, ast.Name) else (f.attr if isinstance(f, ast.Attribute) else "")
        if nm == "partial" and d.args:
            return is_transform_decorator(d.args[0])
        return nm == "transform"
    return False


TRANSFORM_ROOTS = ["pennylane/transforms/**/*.py", "pennylane/noise/*.py", "pennylane/gradients/*.py", "pennylane/qcut/cutcircuit*.py",
                   "pennylane/devices/preprocess.py"]


def enumerate_transforms(repo):
    """(relative file, function name) of every @transform / @partial(transform, ...) function under the roots, from the AST"""
    out = []
    files = sorted({f for r in TRANSFORM_ROOTS for f in glob.glob(os.path.join(repo, r), recursive=True)})
    for f in files:
        rel = os.path.relpath(f, repo)
        try:
            tree = ast.parse(open(f).read())
        except SyntaxError:
            continue
        for n in tree.body:
            if isinstance(n, ast.FunctionDef) and any(is_transform_decorator(d) for d in n.decorator_list):
                out.append((rel, n.name))
    return out


class Analyzer:
    def __init__(self, index: ModuleIndex, fn: ast.FunctionDef, qualname, summaries=None, stack=()):
        self.index, self.fn, self.qualname = index, fn, qualname
        self.summaries = summaries if summaries is not None else {}
        self.stack = stack
        self.sites: list[WriteSite] = []
        self.site_keys = {}
        self.returns = None
        self.assumed = []
        self.unsupported = []
        self.cur_func = qualname

    # ------------------------------------------------------------------ driver
    def run(self):
        a = self.fn.args
        env = {}
        params = [p.arg for p in a.posonlyargs + a.args]
        for k, p in enumerate(params):
            env[p] = AV(frozenset({f"P{k}"}), frozenset({f"P{k}*"}), False, "?")
        extra = len(params)
        if a.vararg:
            env[a.vararg.arg] = AV(frozenset(), frozenset({f"P{extra}", f"P{extra}*"}), True, "list")
            extra += 1
        for p in a.kwonlyargs:
            env[p.arg] = AV(frozenset({f"P{extra}"}), frozenset({f"P{extra}*"}), False, "?")
            extra += 1
        if a.kwarg:
            env[a.kwarg.arg] = AV(frozenset(), frozenset({f"P{extra}", f"P{extra}*"}), True, "?")
        self.block(self.fn.body, env)
        s = Summary(returns=self.returns or OTHER, sites=self.sites, assumed=self.assumed, unsupported=self.unsupported)
        for st in self.sites:
            for k in {param_index(t) for t in st.value.tokens}:
                v = st.verdict(f"P{k}")
                if v == "violation":
                    if f"P{k}" in st.value.ids:
                        s.mutates.add(k)
                    if f"P{k}*" in st.value.ids:
                        s.mutates_reach.add(k)
                elif v == "unclassified":
                    s.unclassified.add(k)
        return s

    # ------------------------------------------------------------------ write sites
    def write(self, node, kind, target_node, val):
        key = (getattr(node, "lineno", 0), getattr(node, "col_offset", 0), kind)
        text = ast.unparse(target_node) if isinstance(target_node, ast.AST) else str(target_node)
        if key in self.site_keys:          # a site revisited by the loop fixpoint: keep the join
            st = self.site_keys[key]
            st.value = st.value.join(val)
            return
        st = WriteSite(len(self.sites), getattr(node, "lineno", 0), kind, text[:80], val, self.cur_func)
        self.site_keys[key] = st
        self.sites.append(st)

    # ------------------------------------------------------------------ statements
    def block(self, stmts, env):
        for s in stmts:
            self.stmt(s, env)

    def stmt(self, s, env):
        m = getattr(self, "s_" + type(s).__name__, None)
        if m is None:
            self.unsupported.append((type(s).__name__, getattr(s, "lineno", 0)))
            return
        m(s, env)

    def s_Expr(self, s, env):
        self.ev(s.value, env)

    def s_Pass(self, s, env):
        pass

    s_Import = s_ImportFrom = s_Global = s_Nonlocal = s_Break = s_Continue = s_Pass

    def s_Assert(self, s, env):
        self.ev(s.test, env)

    def s_Raise(self, s, env):
        if s.exc is not None:
            self.ev(s.exc, env)

    def s_Return(self, s, env):
        v = self.ev(s.value, env) if s.value is not None else OTHER
        self.returns = v if self.returns is None else self.returns.join(v)

    def s_Assign(self, s, env):
        v = self.ev(s.value, env)
        for t in s.targets:
            self.bind(t, v, env, s)

    def s_AnnAssign(self, s, env):
        if s.value is not None:
            self.bind(s.target, self.ev(s.value, env), env, s)

    def s_AugAssign(self, s, env):
        rhs = self.ev(s.value, env)
        t = s.target
        if isinstance(t, ast.Name):
            cur = env.get(t.id, OTHER)
            if cur.ids:
                self.write(s, "augassign-name", t, cur)
            r = rhs.reachable() if cur.kind == "list" else rhs
            env[t.id] = AV(cur.ids, cur.elems | r.ids | r.elems, cur.fresh, cur.kind, cur.dids, cur.delems | r.dids | r.delems)
        elif isinstance(t, ast.Subscript):
            self.write(s, "setitem", t.value, self.ev(t.value, env))
            self.ev(t.slice, env)
        elif isinstance(t, ast.Attribute):
            self.write(s, "setattr", t.value, self.ev(t.value, env))

    def s_Delete(self, s, env):
        for t in s.targets:
            if isinstance(t, ast.Subscript):
                self.write(s, "delitem", t.value, self.ev(t.value, env))
            elif isinstance(t, ast.Attribute):
                self.write(s, "delattr", t.value, self.ev(t.value, env))
            elif isinstance(t, ast.Name):
                env.pop(t.id, None)

    def bind(self, t, v, env, node):
        if isinstance(t, ast.Name):
            env[t.id] = v
        elif isinstance(t, (ast.Tuple, ast.List)):
            starred = any(isinstance(e, ast.Starred) for e in t.elts)
            for pos, e in enumerate(t.elts):
                if isinstance(e, ast.Starred):
                    el = v.element()
                    self.bind(e.value, AV(frozenset(), el.ids | el.elems, True, "list", frozenset(), el.dids | el.delems), env, node)
                else:
                    self.bind(e, v.element(None if starred else pos), env, node)
        elif isinstance(t, ast.Subscript):
            self.write(node, "setitem", t.value, self.ev(t.value, env))
            self.ev(t.slice, env)
        elif isinstance(t, ast.Attribute):
            self.write(node, "setattr", t.value, self.ev(t.value, env))
        elif isinstance(t, ast.Starred):
            self.bind(t.value, fresh_of(v, kind="list"), env, node)

    def join_env(self, a, b):
        out = {}
        for k in set(a) | set(b):
            if k in a and k in b:
                out[k] = a[k].join(b[k])
            else:
                out[k] = a.get(k) or b.get(k)
        return out

    def s_If(self, s, env):
        self.ev(s.test, env)
        e1, e2 = dict(env), dict(env)
        self.block(s.body, e1)
        self.block(s.orelse, e2)
        env.clear()
        env.update(self.join_env(e1, e2))

    def loop(self, s, env, pre=None):
        for _ in range(4):
            before = dict(env)
            e = dict(env)
            if pre:
                pre(e)
            self.block(s.body, e)
            new = self.join_env(env, e)
            env.clear()
            env.update(new)
            if new == before:
                break
        self.block(getattr(s, "orelse", []), env)

    def s_For(self, s, env):
        it = self.ev(s.iter, env)
        item = it.element()
        self.loop(s, env, pre=lambda e: self.bind(s.target, item, e, s))

    s_AsyncFor = s_For

    def s_While(self, s, env):
        self.ev(s.test, env)
        self.loop(s, env)

    def s_With(self, s, env):
        for item in s.items:
            v = self.ev(item.context_expr, env)
            if item.optional_vars is not None:
                self.bind(item.optional_vars, v, env, s)
        self.block(s.body, env)

    s_AsyncWith = s_With

    def s_Try(self, s, env):
        self.block(s.body, env)
        base = dict(env)
        for h in s.handlers:
            e = dict(base)
            if h.name:
                e[h.name] = OTHER
            self.block(h.body, e)
            merged = self.join_env(env, e)
            env.clear()
            env.update(merged)
        self.block(s.orelse, env)
        self.block(s.finalbody, env)

    s_TryStar = s_Try

    def s_Match(self, s, env):
        self.ev(s.subject, env)
        self.unsupported.append(("Match", s.lineno))

    def s_FunctionDef(self, s, env):
        """a nested function: its body is analysed in the environment of its definition (captured names keep their abstract values);
        its own parameters carry no input state"""
        saved = self.cur_func
        self.cur_func = f"{saved}.<locals>.{s.name}"
        e = dict(env)
        a = s.args
        for p in a.posonlyargs + a.args + a.kwonlyargs + ([a.vararg] if a.vararg else []) + ([a.kwarg] if a.kwarg else []):
            e[p.arg] = OTHER
        saved_ret = self.returns
        self.returns = None
        self.block(s.body, e)
        self.returns = saved_ret
        self.cur_func = saved
        env[s.name] = OTHER

    s_AsyncFunctionDef = s_FunctionDef

    def s_ClassDef(self, s, env):
        env[s.name] = OTHER

    # ------------------------------------------------------------------ expressions
    def ev(self, n, env):
        if n is None:
            return OTHER
        m = getattr(self, "e_" + type(n).__name__, None)
        if m is None:
            self.unsupported.append((type(n).__name__, getattr(n, "lineno", 0)))
            vals = [self.ev(c, env) for c in ast.iter_child_nodes(n) if isinstance(c, ast.expr)]
            return unknown_of(*vals) if vals else OTHER
        return m(n, env)

    def e_Constant(self, n, env):
        return OTHER

    e_JoinedStr = e_FormattedValue = e_Constant

    def e_Name(self, n, env):
        return env.get(n.id, OTHER)

    def e_NamedExpr(self, n, env):
        v = self.ev(n.value, env)
        env[n.target.id] = v
        return v

    def e_Lambda(self, n, env):
        e = dict(env)
        for p in n.args.args + n.args.kwonlyargs:
            e[p.arg] = OTHER
        saved = self.returns
        self.ev(n.body, e)
        self.returns = saved
        return OTHER

    def _display(self, elts, env, kind):
        vals = []
        for e in elts:
            vals.append(self.ev(e.value if isinstance(e, ast.Starred) else e, env))
        return fresh_of(*vals, kind=kind)

    def e_List(self, n, env):
        return self._display(n.elts, env, "list")

    def e_Tuple(self, n, env):
        v = self._display(n.elts, env, "?")
        if not any(isinstance(e, ast.Starred) for e in n.elts):
            return AV(v.ids, v.elems, v.fresh, v.kind, v.dids, v.delems, tuple(self.ev(e, env) for e in n.elts))
        return v

    def e_Set(self, n, env):
        return self._display(n.elts, env, "list")

    def e_Dict(self, n, env):
        return self._display([k for k in n.keys if k is not None] + list(n.values), env, "list")

    def _comp(self, n, env, elts):
        e = dict(env)
        for g in n.generators:
            it = self.ev(g.iter, e)
            self.bind(g.target, it.element(), e, n)
            for c in g.ifs:
                self.ev(c, e)
        return fresh_of(*[self.ev(x, e) for x in elts], kind="list")

    def e_ListComp(self, n, env):
        return self._comp(n, env, [n.elt])

    e_SetComp = e_GeneratorExp = e_ListComp

    def e_DictComp(self, n, env):
        return self._comp(n, env, [n.key, n.value])

    def e_IfExp(self, n, env):
        self.ev(n.test, env)
        return self.ev(n.body, env).join(self.ev(n.orelse, env))

    def e_BoolOp(self, n, env):
        v = None
        for x in n.values:
            v = self.ev(x, env).join(v)
        return v

    def e_Compare(self, n, env):
        self.ev(n.left, env)
        for c in n.comparators:
            self.ev(c, env)
        return OTHER

    def e_UnaryOp(self, n, env):
        v = self.ev(n.operand, env)
        return OTHER if isinstance(n.op, ast.Not) else fresh_of(v)

    def e_BinOp(self, n, env):
        a, b = self.ev(n.left, env), self.ev(n.right, env)
        return fresh_of(a, b, kind="list" if "list" in (a.kind, b.kind) else "?")

    def e_Starred(self, n, env):
        return self.ev(n.value, env)

    def e_Await(self, n, env):
        return self.ev(n.value, env)

    def e_Yield(self, n, env):
        if n.value is not None:
            self.ev(n.value, env)
        return OTHER

    e_YieldFrom = e_Yield

    def e_Slice(self, n, env):
        for x in (n.lower, n.upper, n.step):
            if x is not None:
                self.ev(x, env)
        return OTHER

    def e_Subscript(self, n, env):
        v = self.ev(n.value, env)
        self.ev(n.slice, env)
        if isinstance(n.slice, ast.Slice):
            el = v.element()
            return AV(frozenset(), el.ids | el.elems, True, v.kind, frozenset(), el.dids | el.delems)          # x[a:b]: a new sequence of the same elements
        if isinstance(n.slice, ast.Constant) and isinstance(n.slice.value, int):
            return v.element(n.slice.value)
        return v.element()

    def e_Attribute(self, n, env):
        v = self.ev(n.value, env)
        kind = "list" if n.attr in LIST_ATTRS else "?"
        if not v.tokens:
            return AV(kind=kind)
        if n.attr in SCALAR_ATTRS:
            return OTHER
        c = ATTR_CONTRACTS.get(n.attr)
        r = v.reachable(kind)
        if c == "fresh":
            return AV(frozenset(), r.ids | r.elems, True, kind, frozenset(), r.dids | r.delems)
        return r

    # ------------------------------------------------------------------ calls
    def e_Call(self, n, env):
        args = [self.ev(a.value if isinstance(a, ast.Starred) else a, env) for a in n.args]
        kwargs = {k.arg: self.ev(k.value, env) for k in n.keywords}
        allv = args + list(kwargs.values())
        tainted = [v for v in allv if v.tokens]
        f = n.func
        name = dotted(f)
        # ---- method call on some receiver
        if isinstance(f, ast.Attribute):
            recv = self.ev(f.value, env)
            if f.attr in MUTATORS and not (name or "").startswith(("np.", "math.", "qp.math.")):
                self.write(n, "method:" + f.attr, f.value, recv)
                if f.attr in ("append", "add", "insert", "extend", "update", "appendleft", "extendleft", "setdefault"):
                    self._absorb(f.value, recv, allv, env)
                if f.attr in ("pop", "popleft", "popitem", "setdefault"):
                    return recv.element()
                return OTHER
            if name in LIB_ARG_MUTATORS:
                for k in LIB_ARG_MUTATORS[name]:
                    if k < len(args):
                        self.write(n, "call-mutates-arg:" + name, n.args[k], args[k])
                return OTHER
            if f.attr in ("copy", "deepcopy") and name in ("copy.copy", "copy.deepcopy"):
                return fresh_of(*args) if name == "copy.copy" else AV(fresh=True)
            if recv.tokens:
                c = METHOD_CONTRACTS.get(f.attr)
                if c == "fresh":
                    return fresh_of(recv, *allv)
                if c == "elem":
                    return recv.element().join(fresh_of(*allv) if tainted else None)
                if c == "scalar":
                    return OTHER
                if c == "self":
                    return recv.join(fresh_of(recv, *allv))
                if f.attr[:1].isupper():
                    return fresh_of(recv, *allv)
                # unknown method of an object carrying input state: assumed not to mutate it; its result is unclassifiable
                self.assumed.append((f"<input>.{f.attr}()", n.lineno))
                return unknown_of(recv, *allv)
            # receiver carries no input state: module function / method of a fresh object
            return self._plain_call(n, name, f.attr, args, kwargs, allv, tainted, env)
        if isinstance(f, ast.Name):
            return self._plain_call(n, name, f.id, args, kwargs, allv, tainted, env)
        # call of a computed callee, e.g. f(x)(y), self.fns[i](tape)
        self.ev(f, env)
        if tainted:
            self.assumed.append((ast.unparse(f)[:60] + "()", n.lineno))
            return unknown_of(*allv)
        return AV(kind="?")

    def _absorb(self, recv_node, recv, vals, env):
        """container.append(x): the container's elements now include x (only tracked for plain names)"""
        if isinstance(recv_node, ast.Name) and recv_node.id in env:
            toks = frozenset().union(*[v.tokens for v in vals]) if vals else frozenset()
            dtoks = frozenset().union(*[v.dids | v.delems for v in vals]) if vals else frozenset()
            env[recv_node.id] = AV(recv.ids, recv.elems | toks, recv.fresh, recv.kind, recv.dids, recv.delems | dtoks)

    def _plain_call(self, n, name, last, args, kwargs, allv, tainted, env):
        if name in LIB_ARG_MUTATORS:
            for k in LIB_ARG_MUTATORS[name]:
                if k < len(args):
                    self.write(n, "call-mutates-arg:" + name, n.args[k], args[k])
            return OTHER
        if last in ("setattr", "delattr") and args:
            self.write(n, last, n.args[0], args[0])
            return OTHER
        if last in SCALAR_BUILTINS or (name or "").split(".")[0] in ("np", "numpy", "math", "jnp", "jax", "torch", "tf", "scipy", "sp", "pnp", "warnings",
                                                                       "logging", "logger", "re", "os", "sys", "time"):
            if last == "type" and len(args) == 1:
                return OTHER
            return AV(fresh=True) if last not in SCALAR_BUILTINS else OTHER
        if last in ELEMENT_BUILTINS:
            if not tainted:
                return AV(kind="?")
            v = args[0] if args else OTHER
            if last == "getattr" and len(n.args) > 1 and isinstance(n.args[1], ast.Constant) and n.args[1].value in SCALAR_ATTRS:
                return OTHER
            return v.element()
        if last in FRESH_BUILTINS:
            if last == "deepcopy":
                return AV(fresh=True)
            return fresh_of(*allv, kind="list" if last in ("list", "sorted", "set", "dict", "deque") else "?")
        if last[:1].isupper() or last in ("__class__",) or (name or "").endswith(".__class__"):
            return fresh_of(*allv)          # constructor: a new object whose parts may be the arguments
        # ---- a plain function: summary from its body when it can be resolved in the repo
        if isinstance(n.func, ast.Name) and n.func.id in env and env[n.func.id] is not OTHER and not self.index.resolve(n.func.id):
            pass
        target = self.resolve_callee(name)
        if target is not None:
            summ = self.summary_of(*target)
            if summ is not None:
                return self._apply_summary(n, summ, target[1], args, kwargs, allv)
        if tainted:
            self.assumed.append(((name or ast.unparse(n.func)[:60]) + "()", n.lineno))
            return unknown_of(*allv)
        return AV(kind="?")

    def resolve_callee(self, name):
        """plain name, or a dotted path into the package (qp.devices.preprocess.decompose, qp.transforms.merge_rotations, ...)"""
        if not name:
            return None
        if "." not in name:
            return self.index.resolve(name)
        parts = name.split(".")
        head = self.index.imports.get(parts[0])
        if parts[0] in ("qp", "qml", "pennylane") or (head and head[0] == "" and head[1] == "pennylane"):
            mod_parts = ["pennylane"] + parts[1:-1]
        elif head and (head[0] + "." + head[1]).startswith("pennylane"):
            mod_parts = (head[0] + "." + head[1]).split(".") + parts[1:-1]
        else:
            return None
        for cand in ("/".join(mod_parts) + ".py", "/".join(mod_parts) + "/__init__.py"):
            if os.path.exists(os.path.join(self.index.repo, cand)):
                try:
                    return ModuleIndex.get(self.index.repo, cand).resolve(parts[-1])
                except (SyntaxError, OSError):
                    return None
        return None

    def summary_of(self, index, fn):
        key = (index.rel, fn.name)
        if key in self.summaries:
            return self.summaries[key]
        if key in self.stack or len(self.stack) > 6:
            return None          # recursion / depth: treated as an assumed-pure callee by the caller
        if any(is_transform_decorator(d) for d in fn.decorator_list):
            # a transform called from a transform goes through the Transform object's __call__ on a tape: it has its own frame obligations
            pass
        self.summaries[key] = None
        s = Analyzer(index, fn, fn.name, self.summaries, self.stack + (key,)).run()
        self.summaries[key] = s
        return s

    def _apply_summary(self, n, summ, fn, args, kwargs, allv):
        a = fn.args
        params = [p.arg for p in a.posonlyargs + a.args]
        bound = {}
        for k, v in enumerate(args):
            if k < len(params):
                bound[k] = (n.args[k], v)
            elif a.vararg:
                bound.setdefault(len(params), (n.args[k], v))
        names = params + ([a.vararg.arg] if a.vararg else []) + [p.arg for p in a.kwonlyargs]
        for kw, v in kwargs.items():
            if kw in names:
                node = next(k.value for k in n.keywords if k.arg == kw)
                bound[names.index(kw)] = (node, v)
        for k in sorted(summ.mutates | summ.mutates_reach | summ.unclassified):
            if k not in bound or not bound[k][1].tokens:
                continue
            node, v = bound[k]
            if k in summ.mutates:          # the callee writes the argument object itself
                self.write(n, f"call-mutates-arg:{fn.name}#{k}", node, v)
            if k in summ.mutates_reach:    # the callee writes state reachable from the argument (an internal list, an element)
                r_ = v.reachable()
                if not v.ids:
                    # a NEW object built from input state (a DAG of nodes wrapping the operators, ...): what is reachable from it may be
                    # new intermediate objects or input objects -- one level of `elems` cannot tell: unclassifiable
                    r_ = AV(r_.ids, r_.elems, False, r_.kind, frozenset(), frozenset())
                self.write(n, f"call-mutates-reachable:{fn.name}#{k}", node, r_)
            if k in summ.unclassified and k not in summ.mutates and k not in summ.mutates_reach:
                t_ = v.tokens | star(v.tokens)
                self.write(n, f"call-may-mutate-arg:{fn.name}#{k}", node, AV(t_, t_, False, v.kind, frozenset(), frozenset()))
        def inst(r):
            """the callee's abstract value (over its parameter tokens) in terms of the caller's values"""
            items = None if r.items is None else tuple(inst(x) for x in r.items)
            ids = elems = dids = delems = frozenset()
            fresh = r.fresh

            def src_of(t):
                k = param_index(t)
                if k not in bound:
                    return None
                return bound[k][1] if not t.endswith("*") else bound[k][1].reachable()
            for t in r.ids:
                src = src_of(t)
                if src is None:
                    continue
                definite = t in r.dids
                ids |= src.ids
                elems |= src.elems
                dids |= src.dids if definite else frozenset()
                delems |= src.delems if definite else frozenset()
                fresh = fresh and src.fresh and not src.ids
                if not t.endswith("*") and len(r.ids) == 1 and items is None and src.items is not None:
                    items = src.items
            for t in r.elems:
                src = src_of(t)
                if src is None:
                    continue
                elems |= src.ids | src.elems
                delems |= (src.dids | src.delems) if t in r.delems else frozenset()
            return AV(ids, elems, (r.fresh or fresh) and not ids, r.kind, dids, delems, items)
        return inst(summ.returns)


def analyse_function(repo, rel, qualname, summaries=None):
    """run the analysis on `qualname` (function or Class.method) of a repo file: -> (Summary, FunctionDef)"""
    idx = ModuleIndex.get(repo, rel)
    parts = qualname.split(".")
    if len(parts) == 1:
        fn = idx.defs[parts[0]]
    else:
        cls = idx.classes[parts[0]]
        cands = [m for m in cls.body if isinstance(m, ast.FunctionDef) and m.name == parts[1]]
        # property getter rather than its setter
        fn = next((m for m in cands if not any(isinstance(d, ast.Attribute) and d.attr in ("setter", "deleter") for d in m.decorator_list)), cands[0])
    return Analyzer(idx, fn, qualname, summaries if summaries is not None else {}).run(), fn
