"""Frame analysis for a SHARED numpy array handed out by a memoised function (additive extension of analysis.py).

`protected_result_analysis(repo, rel, qualname, producer)` analyses one function with the may-alias analysis of analysis.py, with
three changes that make it sound for numpy arrays:
  * the result of every call of `producer` (a plain / dotted / aliased name) is the PROTECTED object (token P90); unpacking, indexing,
    slicing and iterating it give values that MAY BE views of it (token P90*): numpy basic indexing returns views;
  * numpy aliasing: `.T .real .imag .flat .base`, the methods reshape / ravel / view / transpose / squeeze / swapaxes / diagonal / astype /
    __array__, and the library functions asarray / reshape / ravel / atleast_nd / broadcast_to / convert_like / cast_like / ... may return
    the argument itself or a view: their result keeps the tokens.  Arithmetic, stack, tensordot, copy, ... (NP_FRESH) return new arrays.
    Every other np / math function handed the protected object gives an UNCLASSIFIABLE result (may alias; counted, never a violation);
  * numpy write sites: `x op= v` on a NAME that may be the protected object (in place for arrays), in-place methods (fill, sort, put,
    itemset, resize, partition, byteswap, setfield), `out=` arguments, np.copyto / put / place / putmask / fill_diagonal / put_along_axis,
    `ufunc.at`, besides the write sites of analysis.py (item / attribute assignment, list mutators, callee summaries).
In-repo callees are summarised by the same analysis (a helper doing `c /= 2` on its parameter mutates it).
"""
from __future__ import annotations

import ast
import os

from .analysis import AV, OTHER, Analyzer, ModuleIndex, Summary, dotted, fresh_of, unknown_of, param_index, MUTATORS

PROT = "P90"
NP_ROOTS = ("np", "numpy", "math", "qp.math", "qml.math", "pennylane.math", "pnp", "anp", "onp", "qp.numpy", "qml.numpy")
NP_INPLACE_METHODS = {"fill", "sort", "put", "itemset", "resize", "partition", "byteswap", "setfield", "__imul__", "__itruediv__", "__iadd__",
                      "__isub__", "__ifloordiv__", "__ipow__", "__imod__", "__imatmul__", "__iand__", "__ior__", "__ixor__", "__setitem__"}
NP_VIEW_ATTRS = {"T", "real", "imag", "flat", "base", "mT"}
NP_SCALAR_ATTRS = {"shape", "dtype", "ndim", "size", "itemsize", "nbytes", "strides", "flags"}
NP_VIEW_METHODS = {"reshape", "ravel", "view", "transpose", "squeeze", "swapaxes", "diagonal", "astype", "__array__", "newbyteorder", "getfield",
                   "conj", "conjugate", "numpy", "unwrap"}
NP_FRESH_METHODS = {"copy", "flatten", "tolist", "item", "sum", "prod", "mean", "std", "var", "min", "max", "argmin", "argmax", "argsort", "all", "any",
                    "dot", "round", "cumsum", "cumprod", "nonzero", "tobytes", "take", "repeat", "clip", "trace", "__len__", "tostring", "dump",
                    "dumps", "searchsorted", "compress", "choose", "ptp", "__mul__", "__add__", "__sub__", "__truediv__", "__neg__", "__abs__"}
NP_WRITE_ARG0 = {"copyto", "put", "place", "putmask", "fill_diagonal", "put_along_axis", "shuffle"}
NP_VIEW_FUNCS = {"asarray", "asanyarray", "ascontiguousarray", "asfortranarray", "asarray_chkfinite", "reshape", "ravel", "transpose", "squeeze",
                 "atleast_1d", "atleast_2d", "atleast_3d", "broadcast_to", "broadcast_arrays", "expand_dims", "swapaxes", "moveaxis", "rollaxis", "real",
                 "imag", "diagonal", "split", "hsplit", "vsplit", "dsplit", "array_split", "flip", "fliplr", "flipud", "rot90", "view", "convert_like",
                 "cast_like", "cast", "toarray", "to_numpy", "unwrap", "flatten", "T", "require", "nan_to_num", "real_if_close", "stop_gradient",
                 "tensor", "positive", "conj", "conjugate", "as_strided", "sliding_window_view", "nditer", "ndenumerate", "frombuffer", "from_dlpack"}
NP_FRESH_FUNCS = {"stack", "hstack", "vstack", "dstack", "column_stack", "concatenate", "block", "tensordot", "dot", "vdot", "matmul", "einsum", "kron",
                  "outer", "inner", "cross", "abs", "absolute", "fabs", "sum", "prod", "mean", "std", "var", "median", "copy", "zeros_like", "ones_like",
                  "full_like", "empty_like", "zeros", "ones", "full", "empty", "eye", "identity", "arange", "linspace", "multiply", "divide", "true_divide",
                  "floor_divide", "add", "subtract", "power", "negative", "reciprocal", "sqrt", "square", "exp", "log", "sin", "cos", "tan", "sign",
                  "where", "sort", "argsort", "allclose", "isclose", "all", "any", "shape", "ndim", "size", "max", "min", "amax", "amin", "argmax", "argmin",
                  "maximum", "minimum", "round", "around", "floor", "ceil", "unique", "cumsum", "cumprod", "diff", "tile", "repeat", "roll", "take",
                  "delete", "insert", "append", "pad", "isnan", "isinf", "isfinite", "iscomplex", "isreal", "is_abstract", "requires_grad",
                  "get_interface", "get_dtype_name", "get_deep_interface", "scatter_element_add", "scatter", "trace", "diag", "count_nonzero", "nonzero",
                  "flatnonzero", "array_equal", "equal", "not_equal", "less", "greater", "logical_and", "logical_or", "logical_not", "clip", "mod",
                  "remainder", "fmod", "angle", "arctan2", "arcsin", "arccos", "arctan", "sinh", "cosh", "tanh", "log2", "log10", "expm1", "log1p",
                  "convolve", "correlate", "polyval", "interp", "searchsorted", "bincount", "histogram", "meshgrid", "indices", "ndindex", "isscalar",
                  "norm", "solve", "inv", "det", "eig", "eigh", "eigvals", "eigvalsh", "svd", "qr", "pinv", "matrix_power", "expm", "gather", "set_index",
                  "sqrt_matrix", "expand_matrix", "reduce_sum", "frobenius_inner_product", "tolist", "in1d", "isin"}


def has_prot(av, definite=False):
    src = av.dids if definite else av.ids
    return any(param_index(t) == 90 for t in src)


def site_verdict(site, k=90):
    """'violation' | 'unclassified' | 'ok' for `nothing that is / may be a view of the protected array is written`; unlike
    WriteSite.verdict, `name op= v` counts (in place for ndarrays)"""
    v = site.value
    definite, possible = bool(v.hits(k, True)), bool(v.hits(k, False))
    if not possible:
        return "ok"
    return "violation" if definite else "unclassified"


class NpAnalyzer(Analyzer):
    producer = "finite_diff_coeffs"

    # ------------------------------------------------------------------ helpers
    def is_producer(self, f):
        name = dotted(f)
        if not name:
            return False
        last = name.split(".")[-1]
        if last == self.producer:
            return True
        imp = self.index.imports.get(name)
        return bool(imp and imp[1] == self.producer)

    def np_name(self, name):
        return bool(name) and any(name == r or name.startswith(r + ".") for r in NP_ROOTS)

    # ------------------------------------------------------------------ summaries of callees: same analysis, numpy-aware verdicts
    top = False          # the function under the frame contract itself: its own parameters carry no protected state

    def run(self):
        if self.top:
            a = self.fn.args
            env = {p.arg: OTHER for p in a.posonlyargs + a.args + a.kwonlyargs + ([a.vararg] if a.vararg else []) + ([a.kwarg] if a.kwarg else [])}
            self.block(self.fn.body, env)
            return Summary(returns=self.returns or OTHER, sites=self.sites, assumed=self.assumed, unsupported=self.unsupported)
        s = super().run()
        s.mutates, s.mutates_reach, s.unclassified = set(), set(), set()
        for st in self.sites:
            for k in {param_index(t) for t in st.value.tokens}:
                v = site_verdict(st, k)
                if v == "violation":
                    if f"P{k}" in st.value.ids:
                        s.mutates.add(k)
                    if f"P{k}*" in st.value.ids:
                        s.mutates_reach.add(k)
                elif v == "unclassified":
                    s.unclassified.add(k)
        return s

    def summary_of(self, index, fn):
        key = (index.rel, fn.name)
        if key in self.summaries:
            return self.summaries[key]
        if key in self.stack or len(self.stack) > 6:
            return None
        self.summaries[key] = None
        a = type(self)(index, fn, fn.name, self.summaries, self.stack + (key,))
        a.producer = self.producer
        s = a.run()
        self.summaries[key] = s
        return s

    def _apply_summary(self, n, summ, fn, args, kwargs, allv):
        # a view handed to a callee that writes its argument: the written object is the view itself (ids carry P90*)
        return super()._apply_summary(n, summ, fn, args, kwargs, allv)

    # ------------------------------------------------------------------ expressions
    def e_Subscript(self, n, env):
        v = self.ev(n.value, env)
        if v.ids and isinstance(n.slice, (ast.Slice, ast.Tuple)):
            self.ev(n.slice, env)
            return v.reachable().join(AV(v.ids, v.elems, False, v.kind, v.dids, v.delems))          # a[i:j], a[:, k]: a VIEW of a
        return super().e_Subscript(n, env)

    def e_Attribute(self, n, env):
        v = self.ev(n.value, env)
        if v.ids:
            if n.attr in NP_VIEW_ATTRS:
                return AV(v.ids, v.elems, False, v.kind, v.dids, v.delems)
            if n.attr in NP_SCALAR_ATTRS:
                return OTHER
        return super().e_Attribute(n, env)

    def e_Call(self, n, env):
        f = n.func
        if self.is_producer(f):
            for a in n.args:
                self.ev(a.value if isinstance(a, ast.Starred) else a, env)
            for k in n.keywords:
                self.ev(k.value, env)
            return AV(frozenset({PROT}), frozenset({PROT + "*"}), False, "array")
        # out= : the array handed in is written, whatever the callee is
        for k in n.keywords:
            if k.arg == "out":
                self.write(n, "out-argument", k.value, self.ev(k.value, env))
        name = dotted(f)
        if isinstance(f, ast.Attribute) and not self.np_name(name):
            recv = self.ev(f.value, env)
            if recv.ids:
                args = [self.ev(a.value if isinstance(a, ast.Starred) else a, env) for a in n.args]
                kw = {k.arg: self.ev(k.value, env) for k in n.keywords}
                if f.attr in NP_INPLACE_METHODS and f.attr not in MUTATORS:
                    self.write(n, "method:" + f.attr, f.value, recv)
                    return OTHER
                if f.attr in NP_VIEW_METHODS:
                    return AV(recv.ids, recv.elems, False, recv.kind, recv.dids, recv.delems)
                if f.attr in NP_FRESH_METHODS:
                    return fresh_of(recv, *args, *kw.values())
            if f.attr == "at" and n.args:          # np.add.at(a, idx, v)
                self.write(n, "ufunc.at", n.args[0], self.ev(n.args[0], env))
        if isinstance(f, ast.Attribute) and f.attr == "at" and self.np_name(name) and n.args:
            self.write(n, "ufunc.at", n.args[0], self.ev(n.args[0], env))
            return OTHER
        return super().e_Call(n, env)

    def _plain_call(self, n, name, last, args, kwargs, allv, tainted, env):
        if self.np_name(name) or (name and "." not in name and name in self.index.imports
                                  and (self.index.imports[name][0] or "").split(".")[0] in ("numpy", "scipy", "autograd")):
            if last in NP_WRITE_ARG0 and args:
                self.write(n, "call-mutates-arg:" + (name or last), n.args[0], args[0])
                return OTHER
            if not tainted:
                return AV(fresh=True)
            if last == "array":
                cp = next((k.value for k in n.keywords if k.arg == "copy"), None)
                if cp is None or (isinstance(cp, ast.Constant) and cp.value is True):
                    return fresh_of(*allv)
                return self._alias_of(allv)
            if last in NP_VIEW_FUNCS:
                return self._alias_of(allv)
            if last in NP_FRESH_FUNCS:
                return fresh_of(*allv)
            self.assumed.append(((name or last) + "()", n.lineno))
            return unknown_of(*allv)
        if last in ("zip", "enumerate", "iter", "reversed", "next", "map", "filter", "tuple", "list") and tainted:
            # iterating a 2-D array yields row VIEWS: elements of the new container may be views
            return fresh_of(*allv, kind="list" if last in ("list",) else "?")
        return super()._plain_call(n, name, last, args, kwargs, allv, tainted, env)

    @staticmethod
    def _alias_of(vals):
        out = None
        for v in vals:
            if v.tokens:
                out = AV(v.ids, v.elems, False, v.kind, v.dids, v.delems).join(out)
        return out if out is not None else AV(fresh=True)


def find_function(idx, qualname):
    parts = qualname.split(".")
    if len(parts) == 1:
        return idx.defs[parts[0]]
    cls = idx.classes[parts[0]]
    return next(m for m in cls.body if isinstance(m, (ast.FunctionDef, ast.AsyncFunctionDef)) and m.name == parts[1])


def protected_result_analysis(repo, rel, qualname, producer, summaries=None):
    """-> (Summary, [(WriteSite, verdict)]) for the frame contract `no write site of `qualname` targets (a view of) the result of `producer`'"""
    idx = ModuleIndex.get(repo, rel)
    fn = find_function(idx, qualname)
    a = NpAnalyzer(idx, fn, qualname, summaries if summaries is not None else {})
    a.producer = producer
    a.top = True
    summ = a.run()
    return summ, [(st, site_verdict(st)) for st in summ.sites]


def enumerate_callers(repo, producer, root="pennylane"):
    """every (file, top-level function or Class.method) under `root` whose body (nested functions included) calls `producer`;
    -> (callers, other): `other` lists references that are neither a call inside a function, an import nor a definition
    (module-level calls, the function object escaping as a value)"""
    callers, other = [], []
    for dp, _, files in os.walk(os.path.join(repo, root)):
        for fname in files:
            if not fname.endswith(".py"):
                continue
            path = os.path.join(dp, fname)
            try:
                src = open(path).read()
            except OSError:
                continue
            if producer not in src:
                continue
            rel = os.path.relpath(path, repo)
            try:
                tree = ast.parse(src)
            except SyntaxError:
                other.append((rel, 0, "syntax error"))
                continue
            imported = {a.asname or a.name for nd in ast.walk(tree) if isinstance(nd, ast.ImportFrom) for a in nd.names if a.name == producer}
            names = imported | {producer}

            def refs(node):
                """(call nodes, non-call references) of the producer below node"""
                calls, loose = [], []
                called = set()
                for nd in ast.walk(node):
                    if isinstance(nd, ast.Call):
                        nm = dotted(nd.func)
                        if nm and (nm in names or nm.split(".")[-1] == producer):
                            calls.append(nd)
                            called.add(id(nd.func))
                for nd in ast.walk(node):
                    if id(nd) in called:
                        continue
                    if isinstance(nd, ast.Name) and nd.id in names and isinstance(nd.ctx, ast.Load):
                        loose.append(nd)
                    elif isinstance(nd, ast.Attribute) and nd.attr == producer and isinstance(nd.ctx, ast.Load):
                        loose.append(nd)
                return calls, loose

            def visit(body, prefix):
                for nd in body:
                    if isinstance(nd, (ast.FunctionDef, ast.AsyncFunctionDef)):
                        calls, loose = refs(nd)
                        if nd.name == producer and not prefix:
                            continue
                        if calls:
                            callers.append((rel, prefix + nd.name, len(calls)))
                        for x in loose:
                            other.append((rel, x.lineno, "reference that is not a call"))
                    elif isinstance(nd, ast.ClassDef) and not prefix:
                        visit(nd.body, nd.name + ".")
                    elif isinstance(nd, (ast.Import, ast.ImportFrom)):
                        continue
                    else:
                        calls, loose = refs(nd)
                        for x in calls:
                            other.append((rel, x.lineno, "call outside a function"))
                        for x in loose:
                            if isinstance(nd, ast.Assign) and any(isinstance(t, ast.Name) and t.id == "__all__" for t in nd.targets):
                                continue
                            other.append((rel, x.lineno, "reference that is not a call"))
            visit(tree.body, "")
    return sorted(callers), sorted(other)
