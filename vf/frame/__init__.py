"""E3 `frame`: flow-sensitive intraprocedural may-alias analysis over the REAL function ASTs (re-run on every check).

Every expression gets an abstract value saying which PRE-EXISTING mutable objects (those reachable from the parameters) it may be,
what its elements may be, and whether it is a fresh object; every WRITE SITE gets a verdict `target is not reachable from the
parameter under the frame contract`.  See analysis.py."""
from .analysis import AV, Analyzer, ModuleIndex, Summary, WriteSite, analyse_function, enumerate_transforms      # noqa: F401
