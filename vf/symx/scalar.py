"""`Sym`: a symbolic real/complex scalar that the REAL numeric kernels of /repo are run on.

A Sym wraps an exact `Poly` (ring.py).  It lives inside ordinary numpy object arrays, is registered with autoray as a
numpy-like backend and advertises dtype float64, so `qp.math` dispatch, numpy broadcasting, stack/diag/kron/einsum and
the operator classes all execute unchanged.  Anything that would need a concrete value (bool(), float(), comparison)
raises `SymbolicBranch` => the obligation is undecided, never a violation.
"""
from __future__ import annotations

import math
from fractions import Fraction

import numpy as np
import autoray

from .ring import Cyc, Poly, Unsupported, I_, ONE, ZERO, cyc_sqrt, recognize_real


class SymbolicBranch(Unsupported):
    pass


def _const_poly(o):
    """python / numpy number -> Poly (exact), or NotImplemented."""
    if isinstance(o, Sym):
        return o.p
    if isinstance(o, np.ndarray):
        if o.ndim == 0:
            return _const_poly(o[()])
        return NotImplemented
    if isinstance(o, (np.floating, np.integer, np.complexfloating, np.bool_)):
        o = o.item()
    if isinstance(o, bool):
        return Poly.const(int(o))
    if isinstance(o, int):
        return Poly.const(o)
    if isinstance(o, Fraction):
        return Poly.const(o)
    if isinstance(o, float):
        r = recognize_real(o)
        if r is None:
            raise Unsupported(f"float constant {o!r} not recognised as an exact constant")
        if r[0] == "cyc":
            return Poly.const(r[1])
        return Poly.gen(("pi",)).scale(Cyc.rat(r[1]))
    if isinstance(o, complex):
        re, im = _const_poly(o.real), _const_poly(o.imag)
        return re + im.scale(I_)
    return NotImplemented


class Sym:
    __array_priority__ = 1000
    __slots__ = ("p",)
    ndim = 0
    shape = ()
    size = 1
    dtype = np.dtype("float64")

    def __init__(self, p):
        if not isinstance(p, Poly):
            p = _const_poly(p)
        self.p = p

    # --- arithmetic
    def _bin(self, o, f):
        w = _const_poly(o)
        if w is NotImplemented:
            return NotImplemented
        return Sym(f(self.p, w))

    def __add__(self, o):
        return self._bin(o, lambda a, b: a + b)

    __radd__ = __add__

    def __sub__(self, o):
        return self._bin(o, lambda a, b: a - b)

    def __rsub__(self, o):
        return self._bin(o, lambda a, b: b - a)

    def __mul__(self, o):
        return self._bin(o, lambda a, b: a * b)

    __rmul__ = __mul__

    def __truediv__(self, o):
        return self._bin(o, lambda a, b: a * b.inverse())

    def __rtruediv__(self, o):
        return self._bin(o, lambda a, b: b * a.inverse())

    def __neg__(self):
        return Sym(-self.p)

    def __pos__(self):
        return self

    def __pow__(self, o):
        w = _const_poly(o)
        if w is NotImplemented:
            return NotImplemented
        c = w.const_value() if w.is_const() else None
        if c is None or not c.is_rational():
            raise Unsupported("symbolic or irrational exponent")
        q = c.as_fraction()
        if q.denominator == 1:
            return Sym(self.p ** int(q))
        if q == Fraction(1, 2):
            return self.sqrt()
        raise Unsupported(f"fractional power {q}")

    def __rpow__(self, o):
        raise Unsupported("constant ** symbolic")

    def __mod__(self, o):
        raise Unsupported("modulo of a symbolic value (piecewise in the parameter)")

    def __rmod__(self, o):
        raise Unsupported("modulo by a symbolic value")

    # --- elementary functions (numpy calls these methods on object arrays)
    def exp(self):
        # exp(x) with x = i*y, y real-linear
        return Sym(self.p.scale(-I_).exp_i())

    def cos(self):
        a, b = self.p.exp_i(), (-self.p).exp_i()
        return Sym((a + b).scale(Cyc.rat(Fraction(1, 2))))

    def sin(self):
        a, b = self.p.exp_i(), (-self.p).exp_i()
        return Sym((a - b).scale((I_ * Cyc.rat(2)).inverse()))

    def tan(self):
        raise Unsupported("tan of a symbolic value")

    def sqrt(self):
        if self.p.is_const():
            return Sym(Poly.const(cyc_sqrt(self.p.const_value())))
        raise Unsupported("sqrt of a symbolic value")

    def conjugate(self):
        return Sym(self.p.conj())

    conj = conjugate

    @property
    def real(self):
        return Sym((self.p + self.p.conj()).scale(Cyc.rat(Fraction(1, 2))))

    @property
    def imag(self):
        return Sym((self.p - self.p.conj()).scale((I_ * Cyc.rat(2)).inverse()))

    @property
    def T(self):
        return self

    def item(self):
        return self

    def astype(self, dtype=None, **kwargs):
        return self

    def copy(self):
        return self

    def squeeze(self, *a, **k):
        return self

    def reshape(self, *shape, **k):
        return np.array([self], dtype=object).reshape(*shape)

    def flatten(self):
        return np.array([self], dtype=object)

    def __abs__(self):
        if self.p.is_const():
            c = self.p.const_value()
            n = c * c.conj()
            return Sym(Poly.const(cyc_sqrt(n)))
        raise Unsupported("abs of a symbolic value")

    def __copy__(self):
        return self

    def __deepcopy__(self, memo):
        return self

    # --- anything needing a concrete value leaves the fragment
    def _concrete(self, what):
        if self.p.is_const():
            return complex(self.p.const_value())
        raise SymbolicBranch(f"{what} of a symbolic value")

    def __bool__(self):
        return bool(self._concrete("bool()") != 0)

    def __float__(self):
        v = self._concrete("float()")
        if abs(v.imag) > 0:
            raise TypeError("complex to float")
        return v.real

    def __complex__(self):
        return self._concrete("complex()")

    def __int__(self):
        return int(self.__float__())

    def __index__(self):
        raise SymbolicBranch("index from a symbolic value")

    def __eq__(self, o):
        w = _const_poly(o)
        if w is NotImplemented:
            return NotImplemented
        d = self.p - w
        if d.is_zero():
            return True
        if d.is_const():
            return False
        raise SymbolicBranch("== on a symbolic value")

    def __ne__(self, o):
        r = self.__eq__(o)
        return r if r is NotImplemented else not r

    def _cmp(self, o):
        if self.p.is_const() and isinstance(o, (int, float, np.floating, np.integer)):
            # constant vs number: plain numeric comparison (tolerance tests such as allclose)
            return complex(self.p.const_value()).real - float(o)
        w = _const_poly(o)
        if w is NotImplemented:
            return NotImplemented
        d = self.p - w
        if d.is_const():
            v = complex(d.const_value())
            return v.real
        raise SymbolicBranch("ordering comparison on a symbolic value")

    def __lt__(self, o):
        r = self._cmp(o)
        return r if r is NotImplemented else r < 0

    def __le__(self, o):
        r = self._cmp(o)
        return r if r is NotImplemented else r <= 0

    def __gt__(self, o):
        r = self._cmp(o)
        return r if r is NotImplemented else r > 0

    def __ge__(self, o):
        r = self._cmp(o)
        return r if r is NotImplemented else r >= 0

    def __hash__(self):
        return hash(self.p)

    def __repr__(self):
        return f"Sym({self.p!r})"


autoray.register_backend(Sym, "numpy")


def sym(name: str) -> Sym:
    """a fresh real parameter"""
    return Sym(Poly.param(name))


def to_poly(x) -> Poly:
    if isinstance(x, Sym):
        return x.p
    if isinstance(x, Poly):
        return x
    w = _const_poly(x)
    if w is NotImplemented:
        raise Unsupported(f"cannot convert {type(x).__name__} to an exact scalar")
    return w


def poly_matrix(m) -> np.ndarray:
    """any array-like of numbers / Sym -> numpy object array of Poly"""
    a = np.asarray(m, dtype=object) if not (isinstance(m, np.ndarray) and m.dtype != object) else m
    out = np.empty(a.shape, dtype=object)
    for idx, x in np.ndenumerate(a):
        out[idx] = to_poly(x)
    return out


def pm_matmul(a, b):
    n, k = a.shape
    k2, m = b.shape
    assert k == k2
    out = np.empty((n, m), dtype=object)
    # sparse-aware product
    bz = [[(j, b[r, j]) for j in range(m) if not b[r, j].is_zero()] for r in range(k)]
    for i in range(n):
        row = [Poly() for _ in range(m)]
        for r in range(k):
            x = a[i, r]
            if x.is_zero():
                continue
            for j, y in bz[r]:
                row[j] = row[j] + x * y
        for j in range(m):
            out[i, j] = row[j]
    return out


def pm_dagger(a):
    out = np.empty(a.shape[::-1], dtype=object)
    for (i, j), x in np.ndenumerate(a):
        out[j, i] = x.conj()
    return out


def pm_eye(n):
    out = np.empty((n, n), dtype=object)
    for i in range(n):
        for j in range(n):
            out[i, j] = Poly.const(1) if i == j else Poly()
    return out


def pm_kron(a, b):
    n, m = a.shape
    p, q = b.shape
    out = np.empty((n * p, m * q), dtype=object)
    for i in range(n):
        for j in range(m):
            for k in range(p):
                for l in range(q):
                    out[i * p + k, j * q + l] = a[i, j] * b[k, l]
    return out


def pm_diff_entries(a, b):
    """list of (index, difference Poly) where a and b differ (exact)."""
    assert a.shape == b.shape, (a.shape, b.shape)
    out = []
    for idx, x in np.ndenumerate(a):
        d = x - b[idx]
        if not d.is_zero():
            out.append((idx, d))
    return out


def pm_eval(a, env):
    out = np.empty(a.shape, dtype=complex)
    for idx, x in np.ndenumerate(a):
        out[idx] = x.evaluate(env)
    return out


def pm_params(a):
    s = set()
    for x in a.flat:
        s |= x.params()
    return s


def _sym_array_ufunc(self, ufunc, method, *inputs, **kwargs):
    """object-dtype ufunc dispatch for SymArray/SymArrayC: finiteness tests answer for exact values, everything else is
    numpy's own object loop on the underlying array (result re-viewed as the symbolic subclass)."""
    base = [np.asarray(x, dtype=object) if isinstance(x, (SymArray, SymArrayC)) else x for x in inputs]
    if ufunc is np.isfinite and method == "__call__":
        return np.ones(np.shape(base[0]), dtype=bool)
    if ufunc in (np.isnan, np.isinf) and method == "__call__":
        return np.zeros(np.shape(base[0]), dtype=bool)
    if "out" in kwargs:
        kwargs["out"] = tuple(np.asarray(o, dtype=object) if isinstance(o, (SymArray, SymArrayC)) else o for o in kwargs["out"])
    res = getattr(ufunc, method)(*base, **kwargs)
    if isinstance(res, np.ndarray) and res.dtype == object:
        return res.view(type(self))
    return res


class SymArray(np.ndarray):
    """object ndarray of Sym that advertises float64 to dtype *inspection* (Operator2 validates argument dtypes);
    numpy itself still treats it as an object array, so every operation stays exact."""

    @property
    def dtype(self):
        return np.dtype("float64")

    __array_ufunc__ = _sym_array_ufunc

    def astype(self, dtype=None, *a, **k):
        # casting a symbolic batch to float/complex keeps it symbolic (A-float-as-real)
        if dtype is not None and np.dtype(dtype).kind in "fc":
            return self
        return np.asarray(self, dtype=object).astype(dtype, *a, **k)


def symarray(xs):
    a = np.empty(len(xs), dtype=object)
    for i, x in enumerate(xs):
        a[i] = x
    return a.view(SymArray)


class SymArrayC(np.ndarray):
    """as SymArray, advertising complex128 (matrix-valued operator data)"""

    @property
    def dtype(self):
        return np.dtype("complex128")

    __array_ufunc__ = _sym_array_ufunc

    def astype(self, dtype=None, *a, **k):
        if dtype is not None and np.dtype(dtype).kind in "fc":
            return self
        return np.asarray(self, dtype=object).astype(dtype, *a, **k)


def symarray_c(xs, shape=None):
    a = np.empty(len(xs), dtype=object)
    for i, x in enumerate(xs):
        a[i] = x
    if shape is not None:
        a = a.reshape(shape)
    return a.view(SymArrayC)
