"""Exact arithmetic for the E2 front end.

Cyc  : the cyclotomic field Q(zeta_96)  (contains i, sqrt2, sqrt3, exp(i*pi*k/48)), canonical power basis
       1..zeta^31 modulo Phi_96(x) = x^32 - x^16 + 1  (and zeta^48 = -1).  Equality is decidable and exact.
Poly : sparse Laurent polynomials over Cyc in *generators*:
         ('p', name)        a real parameter occurring polynomially
         ('pi',)            the constant pi occurring polynomially (outside exp)
         ('e', monomial)    exp(i * monomial / UNIT), monomial = sorted tuple of (param name, power)
       Distinct generators are algebraically independent real-analytic functions, so two Poly denote the same
       function of the parameters iff their canonical coefficient maps are identical (sound AND complete).
"""
from __future__ import annotations

import cmath
import math
from fractions import Fraction
from functools import lru_cache

N = 96
HALF = 48
PHI = 32
UNIT = 48  # exponents of e-generators are in units of 1/UNIT


class Unsupported(Exception):
    """The traced computation left the decidable fragment (=> undecided, never a violation)."""


def _reduce(d):
    out = {}
    for k, c in d.items():
        if c == 0:
            continue
        k %= N
        if k >= HALF:
            k -= HALF
            c = -c
        if k >= PHI:
            j = k - PHI
            out[16 + j] = out.get(16 + j, 0) + c
            out[j] = out.get(j, 0) - c
        else:
            out[k] = out.get(k, 0) + c
    return {k: c for k, c in out.items() if c != 0}


class Cyc:
    __slots__ = ("d", "_h")

    def __init__(self, d=None, _canon=False):
        self.d = d if _canon else _reduce(d or {})
        self._h = None

    # constructors
    @staticmethod
    def rat(q):
        q = Fraction(q)
        return Cyc({0: q} if q else {}, True)

    @staticmethod
    def zeta(k, c=1):
        return Cyc({k: Fraction(c)})

    def is_zero(self):
        return not self.d

    def is_rational(self):
        return all(k == 0 for k in self.d)

    def as_fraction(self):
        if not self.is_rational():
            raise Unsupported("cyclotomic number is not rational")
        return self.d.get(0, Fraction(0))

    def __eq__(self, o):
        if not isinstance(o, Cyc):
            o = Cyc.rat(o)
        return self.d == o.d

    def __hash__(self):
        if self._h is None:
            self._h = hash(frozenset(self.d.items()))
        return self._h

    def __add__(self, o):
        d = dict(self.d)
        for k, c in o.d.items():
            v = d.get(k, 0) + c
            if v:
                d[k] = v
            else:
                d.pop(k, None)
        return Cyc(d, True)

    def __neg__(self):
        return Cyc({k: -c for k, c in self.d.items()}, True)

    def __sub__(self, o):
        return self + (-o)

    def __mul__(self, o):
        if not self.d or not o.d:
            return ZERO
        if len(o.d) == 1 and 0 in o.d:
            c = o.d[0]
            return Cyc({k: v * c for k, v in self.d.items()}, True)
        d = {}
        for k1, c1 in self.d.items():
            for k2, c2 in o.d.items():
                k = k1 + k2
                d[k] = d.get(k, 0) + c1 * c2
        return Cyc(d)

    def conj(self):
        return Cyc({(-k) % N: c for k, c in self.d.items()})

    def inverse(self):
        if not self.d:
            raise ZeroDivisionError("Cyc inverse of zero")
        if len(self.d) == 1:
            (k, c), = self.d.items()
            return Cyc({(-k) % N: 1 / c})
        return _inverse(self)

    def __complex__(self):
        return sum((complex(float(c)) * cmath.exp(2j * math.pi * k / N) for k, c in self.d.items()), 0j)

    def __repr__(self):
        if not self.d:
            return "0"
        return " + ".join(f"{c}*z^{k}" if k else f"{c}" for k, c in sorted(self.d.items()))


@lru_cache(maxsize=4096)
def _inverse(a: Cyc) -> Cyc:
    # solve a*b = 1 in the power basis: 32x32 rational linear system, Gauss-Jordan over Fractions
    cols = []
    for j in range(PHI):
        cols.append((a * Cyc.zeta(j)).d)
    M = [[cols[j].get(i, Fraction(0)) for j in range(PHI)] + [Fraction(1 if i == 0 else 0)] for i in range(PHI)]
    n = PHI
    r = 0
    piv = []
    for c in range(n):
        p = next((i for i in range(r, n) if M[i][c] != 0), None)
        if p is None:
            continue
        M[r], M[p] = M[p], M[r]
        inv = 1 / M[r][c]
        M[r] = [x * inv for x in M[r]]
        for i in range(n):
            if i != r and M[i][c] != 0:
                f = M[i][c]
                M[i] = [x - f * y for x, y in zip(M[i], M[r])]
        piv.append(c)
        r += 1
    if r < n:
        raise ZeroDivisionError("Cyc not invertible")
    b = Cyc({piv[i]: M[i][n] for i in range(n)})
    assert (a * b) == ONE
    return b


ZERO = Cyc({}, True)
ONE = Cyc.rat(1)
I_ = Cyc.zeta(24)
SQRT2 = Cyc({12: Fraction(1), 84: Fraction(1)})
SQRT3 = Cyc({8: Fraction(1), 88: Fraction(1)})
assert SQRT2 * SQRT2 == Cyc.rat(2) and SQRT3 * SQRT3 == Cyc.rat(3) and I_ * I_ == Cyc.rat(-1)


def cyc_exp_i_pi(q: Fraction) -> Cyc:
    """exp(i*pi*q) for rational q with 48*q integral."""
    k = q * HALF
    if k.denominator != 1:
        raise Unsupported(f"exp(i*pi*{q}) is outside Q(zeta_96)")
    return Cyc.zeta(int(k) % N)


def _squarefree_split(n: int):
    """n = s*s*f with f squarefree (small n only)."""
    s, f, p = 1, 1, 2
    while p * p <= n:
        while n % (p * p) == 0:
            n //= p * p
            s *= p
        if n % p == 0:
            n //= p
            f *= p
        p += 1
    return s, f * n


def cyc_sqrt(a: Cyc) -> Cyc:
    """principal square root of a non-negative rational whose squarefree part is in {1,2,3,6}."""
    q = a.as_fraction()
    if q < 0:
        raise Unsupported("sqrt of negative constant")
    if q == 0:
        return ZERO
    num, den = q.numerator * q.denominator, q.denominator  # sqrt(num/den) = sqrt(num*den)/den
    s, f = _squarefree_split(num)
    root = {1: ONE, 2: SQRT2, 3: SQRT3, 6: SQRT2 * SQRT3}.get(f)
    if root is None:
        raise Unsupported(f"sqrt({q}) is outside Q(zeta_96)")
    return root * Cyc.rat(Fraction(s, den))


# ------------------------------------------------------------------------------------------------
# float constant recognition (assumption A-float-constants; every mapping is logged)

FLOAT_LOG: dict = {}


def _close(x, y):
    return abs(x - y) <= 8 * max(abs(x), abs(y), 1e-300) * 2.220446049250313e-16


_REAL_TABLE = None


def _real_table():
    global _REAL_TABLE
    if _REAL_TABLE is None:
        t = []
        for k in range(0, 49):
            c = Cyc({k % N: Fraction(1, 2), (-k) % N: Fraction(1, 2)})  # cos(pi k/48)
            v = complex(c).real
            if abs(v) > 1e-12:
                t.append((v, c, f"cos({k}pi/48)"))
        _REAL_TABLE = t
    return _REAL_TABLE


def recognize_real(x: float):
    """Map a python float to an exact constant: returns ('cyc', Cyc) | ('pi', Fraction) | None."""
    x = float(x)
    if x in FLOAT_LOG:
        return FLOAT_LOG[x][0]
    res = None
    name = None
    if x == 0.0:
        res, name = ("cyc", ZERO), "0"
    else:
        fr = Fraction(x)  # exact binary value
        if fr.denominator <= 2 ** 20:
            res, name = ("cyc", Cyc.rat(fr)), str(fr)
    if res is None:
        # rational multiples of pi
        for den in (1, 2, 3, 4, 6, 8, 12, 16, 24, 32, 48):
            r = x / math.pi * den
            rr = round(r)
            if rr != 0 and abs(rr) <= 64 * den and _close(x, math.pi * rr / den):
                res, name = ("pi", Fraction(rr, den)), f"{Fraction(rr, den)}*pi"
                break
    if res is None:
        # rational multiples of cos(k pi/48) (covers sqrt2/2, sqrt3/2, cos(pi/8) ...), small rational prefactors
        for v, c, nm in _real_table():
            r = x / v
            for den in (1, 2, 3, 4, 8):
                rr = round(r * den)
                if rr != 0 and abs(rr) <= 16 * den and _close(x, v * rr / den):
                    res, name = ("cyc", c * Cyc.rat(Fraction(rr, den))), f"{Fraction(rr, den)}*{nm}"
                    break
            if res:
                break
    if res is None:
        # short decimal rationals (0.1, 0.3, 1e-3 ...): the float is the correctly rounded value of p/q, q | 10^6
        fr = Fraction(x).limit_denominator(10 ** 6)
        if float(fr) == x:
            res, name = ("cyc", Cyc.rat(fr)), str(fr)
    FLOAT_LOG[x] = (res, name)
    return res


# ------------------------------------------------------------------------------------------------
# polynomials


def _mono_mul(a, b):
    """multiply two sorted ((gen, power), ...) tuples"""
    if not a:
        return b
    if not b:
        return a
    d = dict(a)
    for g, p in b:
        v = d.get(g, 0) + p
        if v:
            d[g] = v
        else:
            d.pop(g, None)
    return tuple(sorted(d.items()))


class Poly:
    __slots__ = ("t",)

    def __init__(self, t=None):
        self.t = t or {}

    @staticmethod
    def const(c):
        if not isinstance(c, Cyc):
            c = Cyc.rat(c)
        return Poly({(): c} if not c.is_zero() else {})

    @staticmethod
    def gen(g, power=1):
        return Poly({((g, power),): ONE})

    @staticmethod
    def param(name):
        return Poly.gen(("p", name))

    def is_zero(self):
        return not self.t

    def is_const(self):
        return all(k == () for k in self.t)

    def const_value(self) -> Cyc:
        if not self.is_const():
            raise Unsupported("expression is not a constant")
        return self.t.get((), ZERO)

    def __eq__(self, o):
        return isinstance(o, Poly) and self.t == o.t

    def __hash__(self):
        return hash(frozenset(self.t.items()))

    def __add__(self, o):
        t = dict(self.t)
        for k, c in o.t.items():
            if k in t:
                v = t[k] + c
                if v.is_zero():
                    del t[k]
                else:
                    t[k] = v
            else:
                t[k] = c
        return Poly(t)

    def __neg__(self):
        return Poly({k: -c for k, c in self.t.items()})

    def __sub__(self, o):
        return self + (-o)

    def __mul__(self, o):
        if not self.t or not o.t:
            return Poly()
        t = {}
        for k1, c1 in self.t.items():
            for k2, c2 in o.t.items():
                k = _mono_mul(k1, k2)
                c = c1 * c2
                if k in t:
                    v = t[k] + c
                    if v.is_zero():
                        del t[k]
                    else:
                        t[k] = v
                elif not c.is_zero():
                    t[k] = c
        return Poly(t)

    def scale(self, c: Cyc):
        if c.is_zero():
            return Poly()
        return Poly({k: v * c for k, v in self.t.items()})

    def inverse(self):
        if len(self.t) != 1:
            raise Unsupported("division by a non-monomial symbolic expression")
        (k, c), = self.t.items()
        return Poly({tuple((g, -p) for g, p in k): c.inverse()})

    def __pow__(self, n: int):
        if n < 0:
            return self.inverse() ** (-n)
        r = Poly.const(1)
        b = self
        while n:
            if n & 1:
                r = r * b
            b = b * b
            n >>= 1
        return r

    def conj(self):
        t = {}
        for k, c in self.t.items():
            kk = tuple(sorted((g, -p) if g[0] == "e" else (g, p) for g, p in k))
            t[kk] = c.conj()
        return Poly(t)

    def exp_i(self):
        """exp(i * self) for self a real polynomial in parameters (rational coefficients) plus rational*pi."""
        out = Poly.const(1)
        for k, c in self.t.items():
            q = c.as_fraction() if c.is_rational() else None
            if q is None:
                raise Unsupported("exp of an argument with irrational coefficient")
            if k == ():
                raise Unsupported(f"exp(i*{q}) with a non-zero constant that is not a multiple of pi")
            gens = [g for g, _ in k]
            if all(g[0] == "p" for g in gens) and all(p > 0 for _, p in k):
                mono = tuple((g[1], p) for g, p in k)
                e = q * UNIT
                if e.denominator != 1:
                    raise Unsupported(f"frequency {q} not representable in units of 1/{UNIT}")
                out = out * Poly.gen(("e", mono), int(e))
            elif k == ((("pi",), 1),):
                out = out.scale(cyc_exp_i_pi(q))
            else:
                raise Unsupported(f"exp(i*...) of a term {k} outside the fragment")
        return out

    def evaluate(self, env: dict) -> complex:
        tot = 0j
        for k, c in self.t.items():
            v = complex(c)
            for g, p in k:
                if g[0] == "p":
                    v *= env[g[1]] ** p
                elif g[0] == "pi":
                    v *= math.pi ** p
                else:
                    m = 1.0
                    for nm, pw in g[1]:
                        m *= env[nm] ** pw
                    v *= cmath.exp(1j * m * p / UNIT)
            tot += v
        return tot

    def params(self):
        s = set()
        for k in self.t:
            for g, _ in k:
                if g[0] == "p":
                    s.add(g[1])
                elif g[0] == "e":
                    s.update(nm for nm, _ in g[1])
        return s

    def e_exponents(self, name):
        """set of exponents (in units of 1/UNIT) of exp(i*name) over all terms (only pure single-parameter generators)."""
        out = set()
        for k in self.t:
            e = 0
            for g, p in k:
                if g[0] == "e" and g[1] == ((name, 1),):
                    e += p
            out.add(e)
        return out

    def __repr__(self):
        if not self.t:
            return "0"
        parts = []
        for k, c in sorted(self.t.items(), key=lambda kv: repr(kv[0])):
            ms = []
            for g, p in k:
                if g[0] == "p":
                    ms.append(f"{g[1]}^{p}" if p != 1 else g[1])
                elif g[0] == "pi":
                    ms.append(f"pi^{p}" if p != 1 else "pi")
                else:
                    mono = "*".join(f"{nm}^{pw}" if pw != 1 else nm for nm, pw in g[1])
                    ms.append(f"exp({Fraction(p, UNIT)}i*{mono})")
            parts.append(f"({c})" + ("*" + "*".join(ms) if ms else ""))
        return " + ".join(parts)


def poly_diff(p: Poly, name: str) -> Poly:
    """d/d(name) of a Poly whose dependence on `name` is polynomial and through exp(i*name*k/UNIT) generators"""
    out = Poly()
    for key, c in p.t.items():
        for idx, (g, pw) in enumerate(key):
            if g == ("p", name):
                # d/dx x^pw = pw x^(pw-1)
                rest = tuple(k for j, k in enumerate(key) if j != idx)
                nk = _mono_mul(rest, ((g, pw - 1),) if pw - 1 != 0 else ())
                out = out + Poly({nk: c * Cyc.rat(pw)})
            elif g[0] == "e":
                mono = g[1]
                if any(nm == name for nm, _ in mono):
                    if mono != ((name, 1),):
                        raise Unsupported("derivative through a mixed monomial generator")
                    # d/dx exp(i x /UNIT)^pw = i*pw/UNIT * same
                    out = out + Poly({key: c * I_ * Cyc.rat(Fraction(pw, UNIT))})
    return out
