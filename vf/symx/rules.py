"""Shared machinery for the registered decomposition rules (C10, C11, C13): instance configurations, symbolic tracing of
the REAL rule through the repository's calling convention, circuit-matrix product in the exact ring, work wires."""
from __future__ import annotations

import itertools
import re

import numpy as np
import pennylane as qp
from pennylane.core.operator import Operator1

from .ring import Poly, Unsupported, Cyc
from .scalar import Sym, sym, symarray_c, poly_matrix, pm_eye

PN = ["p0", "p1", "p2", "p3"]


class Config:
    """one operator instance configuration: mk(P) builds the operator with P(i) the i-th parameter (float or Sym)"""

    def __init__(self, opname, label, mk, npar, exact_sizes=True, zsym=False, numeric=False):
        self.opname, self.label, self.mk, self.npar = opname, label, mk, npar
        self.size_bounded = not exact_sizes
        self.zsym = zsym
        self.numeric = numeric      # data-carrying operator instantiated with concrete numeric data (bounded checks only)

    @property
    def names(self):
        return PN[:self.npar] + (["z"] if self.zsym else [])

    def sym_op(self):
        return self.mk(lambda i: sym(PN[i]) if i != "z" else sym("z"))

    def twin_op(self, shift=0.0):
        return self.mk(lambda i: (0.3 + 0.1 * i + shift) if i != "z" else 2.0 + shift)

    def float_op(self, env):
        return self.mk(lambda i: env[PN[i]] if i != "z" else env["z"])


def find_cls(name):
    for mod in (qp, qp.ops, qp.templates, qp.ops.op_math):
        if hasattr(mod, name):
            return getattr(mod, name)
    return None


SCRAMBLE = [2, 0, 3, 1, 5, 4]


def base_configs(tier):
    """configurations of the un-wrapped named operators: name -> list of (label, npar, mk(P, wires)->op, nwires)"""
    from refs.gates import REF
    out = {}
    for name, (npar, nw, _) in REF.items():
        cls = find_cls(name)
        if cls is None or name in ("I", "X", "Y", "Z", "H", "SQISW", "CPhase"):
            continue
        out[name] = [("", npar, (lambda P, wires, cls=cls, npar=npar: cls(*[P(i) for i in range(npar)], wires=wires)), nw)]
    nmax = 3 if tier == "quick" else 4
    out["MultiRZ"] = [(f"[n={n}]", 1, (lambda P, wires: qp.MultiRZ(P(0), wires=wires)), n) for n in range(1, nmax + 1)]
    words = ["X", "Y", "Z", "I", "XY", "ZZ", "IX", "YI", "II", "XYZ", "ZIX"] if tier == "quick" else \
        ["".join(w) for n in (1, 2, 3) for w in itertools.product("IXYZ", repeat=n)]
    out["PauliRot"] = [(f"[{w}]", 1, (lambda P, wires, w=w: qp.PauliRot(P(0), w, wires=wires)), len(w)) for w in words]
    out["PCPhase"] = [(f"[n={n},dim={d}]", 1, (lambda P, wires, d=d: qp.PCPhase(P(0), d, wires=wires)), n)
                      for n in ((1, 2, 3) if tier == "quick" else (1, 2, 3, 4)) for d in range(0, 2 ** n + 1)]
    out["GlobalPhase"] = [("", 1, (lambda P, wires: qp.GlobalPhase(P(0))), 0)]
    out["Identity"] = [(f"[n={n}]", 0, (lambda P, wires: qp.Identity(wires=wires)), n) for n in (1, 2)]
    mcx = []
    for nc in range(1, nmax + 1):
        for cv in itertools.product([0, 1], repeat=nc):
            if tier == "quick" and nc == 3 and cv not in ((1, 1, 1), (1, 0, 1), (0, 0, 0)):
                continue
            mcx.append((f"[cv={''.join(map(str, cv))}]", 0,
                        (lambda P, wires, cv=cv: qp.MultiControlledX(wires=wires, control_values=list(cv))), nc + 1))
    out["MultiControlledX"] = mcx
    out["DiagonalQubitUnitary"] = [(f"[n={n}]", 2 ** n, (lambda P, wires, n=n: qp.DiagonalQubitUnitary(_unit([P(i) for i in range(2 ** n)]), wires=wires)), n)
                                   for n in (1, 2)]
    return out


def _unit(ps):
    if any(isinstance(p, Sym) for p in ps):
        return symarray_c([(1j * p).exp() for p in ps])
    return np.exp(1j * np.array(ps, dtype=float))


def _controlled(base, cw, cv):
    """the repository's own convention (ops/functions/assert_valid.py): Controlled for Operator1, ControlledOp2 otherwise"""
    ctrl = qp.ops.Controlled if isinstance(base, Operator1) else qp.ops.ControlledOp2
    return ctrl(base, cw, cv)


def _rand_unitary(n, seed):
    rng = np.random.default_rng(seed)
    a = rng.normal(size=(n, n)) + 1j * rng.normal(size=(n, n))
    q, r = np.linalg.qr(a)
    return q * (np.diag(r) / np.abs(np.diag(r)))


def numeric_configs(tier):
    """data-carrying operators instantiated with concrete numeric data: QubitUnitary, ControlledQubitUnitary, SemiAdder and
    their controlled versions.  Rules for these branch on the data, so they are only ever checked as bounded stand-ins."""
    out = []
    one = {"H": np.array([[1, 1], [1, -1]]) / np.sqrt(2), "S": np.diag([1, 1j]), "T": np.diag([1, np.exp(0.25j * np.pi)]),
           "RX(0.3)": qp.RX.compute_matrix(0.3), "phase*RY(0.5)": np.exp(0.2j) * qp.RY.compute_matrix(0.5),
           "rand-U2": _rand_unitary(2, 7), "I": np.eye(2), "Z": np.diag([1.0, -1.0])}
    two = {"CNOT": qp.CNOT.compute_matrix(), "SWAP": qp.SWAP.compute_matrix(), "RX(x)RY": np.kron(qp.RX.compute_matrix(0.4), qp.RY.compute_matrix(1.1)),
           "rand-U4": _rand_unitary(4, 11), "rand-U4b": _rand_unitary(4, 23), "IsingXX(0.7)": qp.IsingXX.compute_matrix(0.7),
           "CRY(0.9)": qp.CRY.compute_matrix(0.9)}
    for k, U in one.items():
        out.append(Config("QubitUnitary", f"[{k}]", (lambda P, U=U: qp.QubitUnitary(U, wires=[0])), 0, False, numeric=True))
        for cv, cl in (([1], "c1"), ([0], "c0"), ([1, 0], "c10"), ([1, 1, 1], "c111")):
            cw = [10 + j for j in range(len(cv))]
            out.append(Config("ControlledQubitUnitary", f"[{k},{cl}]",
                              (lambda P, U=U, cw=cw, cv=cv: qp.ControlledQubitUnitary(U, wires=cw + [0], control_values=cv)), 0, False, numeric=True))
            if len(cv) >= 2:
                out.append(Config("ControlledQubitUnitary", f"[{k},{cl},work]",
                                  (lambda P, U=U, cw=cw, cv=cv: qp.ControlledQubitUnitary(U, wires=cw + [0], control_values=cv, work_wires=[20, 21])),
                                  0, False, numeric=True))
    for k, U in two.items():
        out.append(Config("QubitUnitary", f"[{k}]", (lambda P, U=U: qp.QubitUnitary(U, wires=[0, 1])), 0, False, numeric=True))
    for ww in ([], [6], [6, 7]):
        out.append(Config("SemiAdder", f"[3+3,work={len(ww)}]", (lambda P, ww=ww: qp.SemiAdder([0, 1, 2], [3, 4, 5], work_wires=ww)), 0, False, numeric=True))
        for cww in ([], [8, 9]):
            out.append(Config("C(SemiAdder)", f"[3+3,work={len(ww)},ctrl-work={len(cww)}]",
                              (lambda P, ww=ww, cww=cww: qp.ctrl(qp.SemiAdder([0, 1, 2], [3, 4, 5], work_wires=ww), control=[11, 12], work_wires=cww)),
                              0, False, numeric=True))
    # TemporaryAND (Elbow): every control-value pair; its adjoint is only specified on inputs whose target already holds the AND
    for cv in ((1, 1), (1, 0), (0, 1), (0, 0)):
        c0 = Config("TemporaryAND", f"[cv={cv[0]}{cv[1]}]", (lambda P, cv=cv: qp.TemporaryAND(wires=[2, 0, 1], control_values=cv)), 0, False, numeric=False)
        c0.valid_inputs = [(x << 2) | (y << 1) for x in (0, 1) for y in (0, 1)]       # documented domain: target wire in |0>
        out.append(c0)
        c = Config("Adjoint(TemporaryAND)", f"[cv={cv[0]}{cv[1]}]",
                   (lambda P, cv=cv: qp.adjoint(qp.TemporaryAND(wires=[2, 0, 1], control_values=cv), lazy=True)), 0, False, numeric=False)
        # valid inputs |x, y, t> (wire order = operator wires): t == AND of the controls w.r.t. the control values
        c.valid_inputs = [((x << 2) | (y << 1) | int(x == cv[0] and y == cv[1])) for x in (0, 1) for y in (0, 1)]
        out.append(c)
    return out


def all_configs(tier):
    """every registry name we can instantiate -> list of Config; plus the list of names we cannot (with reason)"""
    from pennylane.decomposition import decomposition_rule as dr
    reg = dr._decompositions_var.get()  # pylint: disable=protected-access
    base = base_configs(tier)
    configs, skipped = [], {}
    ctrl_variants = [([1], "c1"), ([0], "c0"), ([1, 0], "c10")]
    if tier != "quick":
        ctrl_variants += [([1, 1], "c11"), ([0, 1, 1], "c011")]
    pow_ints = list(range(-3, 10)) if tier == "quick" else list(range(-9, 19))
    for name in sorted(reg):
        m = re.fullmatch(r"(Adjoint|Pow|C)\((\w+)\)", name)
        bname = m.group(2) if m else name
        if bname not in base:
            skipped[name] = "no instance builder (template / data-carrying / composite operator)"
            continue
        for label, npar, mk, nw in base[bname]:
            wires = SCRAMBLE[:nw] if nw <= 4 else list(range(nw))
            wires = sorted(wires)[::-1] if nw == 2 else wires
            sb = bool(label)
            if not m:
                configs.append(Config(name, label, (lambda P, mk=mk, wires=wires: mk(P, wires)), npar, not sb))
            elif m.group(1) == "Adjoint":
                configs.append(Config(name, label, (lambda P, mk=mk, wires=wires: qp.adjoint(mk(P, wires), lazy=True)), npar, not sb))
            elif m.group(1) == "Pow":
                for z in pow_ints:
                    configs.append(Config(name, f"{label}[z={z}]", (lambda P, mk=mk, wires=wires, z=z: qp.pow(mk(P, wires), z, lazy=True)),
                                          npar, False))
            else:
                for cv, cl in ctrl_variants:
                    cw = [10 + k for k in range(len(cv))]
                    configs.append(Config(name, f"{label}[{cl}]",
                                          (lambda P, mk=mk, wires=wires, cw=cw, cv=cv: _controlled(mk(P, wires), cw, cv)), npar, False))
    try:
        nc = numeric_configs(tier)
        configs += nc
        for c in nc:
            skipped.pop(c.opname, None)
    except Exception as ex:  # pylint: disable=broad-except
        skipped["numeric data-carrying operators"] = f"builder failed: {type(ex).__name__}: {ex}"
    return configs, skipped


def decomp_call_args(op):
    """the repository's calling convention (decomposition/utils.py:_get_decomp_args) without abstractification"""
    if isinstance(op, Operator1):
        return tuple(op.data), {"wires": op.wires, **op.hyperparameters}
    return (), dict(op.arguments)


def run_rule(rule, op):
    args, kwargs = decomp_call_args(op)
    with qp.queuing.AnnotatedQueue() as q:
        rule(*args, **kwargs)
    return list(q.queue)


class HasMCM(Exception):
    pass


def apply_small(M, U, pos, n):
    """left-multiply the 2^n x cols matrix M (object array of Poly) by U acting on bit positions `pos`
    (pos[0] = most significant bit of U's index; bit position 0 = most significant of the n wires)."""
    k = len(pos)
    dim, cols = M.shape
    out = np.empty_like(M)
    shifts = [n - 1 - p for p in pos]
    mask = 0
    for s in shifts:
        mask |= 1 << s
    nz = [[(c, U[r, c]) for c in range(2 ** k) if not U[r, c].is_zero()] for r in range(2 ** k)]
    for rest in range(dim):
        if rest & mask:
            continue
        rows = []
        for sub in range(2 ** k):
            idx = rest
            for b, s in enumerate(shifts):
                if (sub >> (k - 1 - b)) & 1:
                    idx |= 1 << s
            rows.append(idx)
        for r in range(2 ** k):
            tgt = rows[r]
            for col in range(cols):
                acc = None
                for c, u in nz[r]:
                    x = M[rows[c], col]
                    if x.is_zero():
                        continue
                    t = u * x
                    acc = t if acc is None else acc + t
                out[tgt, col] = acc if acc is not None else Poly()
    return out


def lift_float_params(op):
    """An emitted operator with concrete float parameters (qp.RX(np.pi/2, ...)) is re-bound with the exact constants the
    floats denote (A-float-constants), so that its REAL matrix kernel runs exactly instead of in binary64."""
    try:
        data = list(op.data)
    except Exception:  # pylint: disable=broad-except
        return op
    if not data or all(isinstance(d, Sym) for d in data):
        return op
    new = []
    for d in data:
        if isinstance(d, Sym):
            new.append(d)
            continue
        a = np.asarray(d)
        if a.ndim == 0 and a.dtype.kind in "fi":
            try:
                new.append(Sym(float(a)))
            except Unsupported:
                return op
        else:
            return op
    try:
        return qp.ops.functions.bind_new_parameters(op, new)
    except Exception:  # pylint: disable=broad-except
        return op


def op_small_matrix(op):
    """matrix of one emitted operator on its own wires (real code, symbolic), as Poly array"""
    if isinstance(op, qp.measurements.MeasurementProcess) or type(op).__name__ in ("MidMeasure", "MidMeasureMP", "PauliMeasure", "Conditional"):
        raise HasMCM(type(op).__name__)
    wires = list(op.wires)
    z = getattr(op, "z", None)
    if type(op).__name__.startswith("Pow") and isinstance(z, (int, np.integer)) and not isinstance(z, bool) \
            and list(op.base.wires) == wires:
        # integer power == repeated product of the base's exact matrix (negative: conjugate transpose, bases are unitary);
        # numpy's matrix_power/inv would run in binary64.  Pow.matrix itself is under contract in C03.
        from .scalar import pm_dagger, pm_matmul
        B = op_small_matrix(op.base)
        P = pm_eye(B.shape[0])
        for _ in range(abs(int(z))):
            P = pm_matmul(B, P)
        return pm_dagger(P) if z < 0 else P
    tname = type(op).__name__
    if tname in ("Adjoint", "AdjointOperation", "AdjointOp2", "Adjoint2") and hasattr(op, "base") and list(op.base.wires) == wires:
        # adjoint of an emitted operator: conjugate transpose of the base's exact matrix (Adjoint.matrix is under contract in C03)
        from .scalar import pm_dagger
        return pm_dagger(op_small_matrix(op.base))
    if tname == "Prod" and hasattr(op, "operands") and wires:
        # product of emitted operators: ordered product of the operands' exact matrices (Prod.matrix is under contract in C03)
        posn = {w: i for i, w in enumerate(wires)}
        M = pm_eye(2 ** len(wires))
        for o in reversed(op.operands):
            M = apply_small(M, op_small_matrix(o), [posn[w] for w in o.wires], len(wires))
        return M
    if tname == "ChangeOpBasis" and wires:
        # compute / target / uncompute: the exact matrix of its own (three-operator) decomposition, in circuit order
        return circuit_matrix(op.decomposition(), wires)
    op = lift_float_params(op)
    try:
        m = qp.matrix(op, wire_order=wires) if wires else qp.matrix(op)
    except (qp.exceptions.MatrixUndefinedError, qp.exceptions.DecompositionUndefinedError) as ex:
        raise Unsupported(f"no matrix for emitted {type(op).__name__}: {ex}") from ex
    return poly_matrix(np.asarray(m, dtype=object) if not isinstance(m, np.ndarray) else m)


def circuit_matrix(ops, wire_order, work=None):
    """product of the emitted operators in circuit order on `wire_order` (Poly matrix); dynamic wires are mapped through
    `work` (dict DynamicWire -> label) and Allocate/Deallocate are bookkeeping only"""
    n = len(wire_order)
    posn = {w: i for i, w in enumerate(wire_order)}
    M = pm_eye(2 ** n)
    for op in ops:
        nm = type(op).__name__
        if nm in ("Allocate", "Deallocate"):
            continue
        if work:
            mapped = {w: work[w] for w in op.wires if w in work}
            if mapped:
                op = qp.map_wires(op, mapped)
        U = op_small_matrix(op)
        wires = list(op.wires)
        if not wires:
            c = U[0, 0]
            for idx, x in np.ndenumerate(M):
                M[idx] = c * x
            continue
        M = apply_small(M, U, [posn[w] for w in wires], n)
    return M


def work_wire_plan(ops):
    """dynamic wires allocated by the emitted circuit -> fresh labels with (state, restored)"""
    work, info = {}, []
    for op in ops:
        if type(op).__name__ == "Allocate":
            for w in op.wires:
                lab = f"work{len(work)}"
                work[w] = lab
                info.append((lab, str(getattr(op.state, "value", op.state)), bool(op.restored)))
    return work, info
