"""E2b: path-exhaustive bit-level symbolic execution of REAL numpy code (DESIGN 2.3).

`Bit` is a scalar that lives inside ordinary numpy *object* arrays and denotes a GF(2) value given by a z3 Bool term over the input
bits; `^ & | * ~` build terms, `+` builds a symbolic integer (`SInt`, a z3 Int term: sums of bits), comparisons give `Bit`s again.
Anything that needs a concrete truth value -- `bool(bit)`, hence `if`, `not`, `ndarray.nonzero`, `np.where`, `np.any` -- asks the
current `Path`: the decision is taken from the path's decision prefix, or, beyond it, both outcomes are checked for feasibility
under the path condition and the alternative is queued (re-execution with the extended prefix, as vf/pyvc's Ctx.branch does).
`explore(fn)` runs `fn` once per feasible path and returns, per path, its path condition and result / exception: the path
conditions PARTITION the input space, so obligations proved per path hold for ALL 2^(#bits) inputs of that array shape.
"""
from __future__ import annotations

import time

import numpy as np
import z3

_CUR = None          # the Path being executed


class PathBudget(Exception):
    pass


class Path:
    def __init__(self, prefix, assumptions=()):
        self.prefix = list(prefix)
        self.pos = 0
        self.decisions = []
        self.pc = list(assumptions)
        self.forks = []
        self.solver = z3.Solver()
        for a in assumptions:
            self.solver.add(a)
        self.n_checks = 0

    def decide(self, e) -> bool:
        if isinstance(e, bool):
            return e
        e = z3.simplify(e)
        if z3.is_true(e):
            return True
        if z3.is_false(e):
            return False
        if self.pos < len(self.prefix):
            d = self.prefix[self.pos]
        else:
            self.n_checks += 2
            can_t = self.solver.check(e) == z3.sat
            can_f = self.solver.check(z3.Not(e)) == z3.sat
            if can_t and can_f:
                self.forks.append(self.decisions + [False])
                d = True
            elif can_t:
                d = True
            elif can_f:
                d = False
            else:                                   # cannot happen: the path condition is satisfiable by construction
                raise RuntimeError("infeasible path condition")
        # entailed outcomes are recorded as well, so that a re-execution consumes its prefix at the same call sites
        self.pos += 1
        self.decisions.append(d)
        c = e if d else z3.Not(e)
        self.pc.append(c)
        self.solver.add(c)
        return d


def _term(x):
    """z3 Bool term / python bool of a bit-like value (Bit, bool, 0/1 integer)"""
    if isinstance(x, Bit):
        return x.e
    if isinstance(x, (bool, np.bool_)):
        return bool(x)
    if isinstance(x, (int, np.integer)):
        if int(x) in (0, 1):
            return bool(int(x))
        raise TypeError(f"integer {x!r} is not a bit")
    return None


def _mk(e):
    """canonical value of a Bool term: python int 0/1 when constant"""
    if isinstance(e, bool):
        return int(e)
    e = z3.simplify(e)
    if z3.is_true(e):
        return 1
    if z3.is_false(e):
        return 0
    return Bit(e)


def _z(e):
    return z3.BoolVal(e) if isinstance(e, bool) else e


class Bit:
    """an element of GF(2) given by a Boolean term over the input bits"""
    __slots__ = ("e",)
    __array_priority__ = 1000

    def __init__(self, e):
        self.e = e

    def __bool__(self):
        if _CUR is None:
            raise RuntimeError("bool() of a symbolic bit outside explore()")
        return _CUR.decide(self.e)

    def __index__(self):
        raise TypeError("a symbolic bit cannot be used as an index")

    def __hash__(self):
        return hash(self.e) if not isinstance(self.e, bool) else hash(self.e)

    def __repr__(self):
        return f"Bit({self.e})"

    def _bin(self, o, f):
        t = _term(o)
        if t is None:
            return NotImplemented
        return _mk(f(_z(self.e), _z(t)))

    def __xor__(self, o):
        return self._bin(o, z3.Xor)
    __rxor__ = __xor__

    def __and__(self, o):
        return self._bin(o, z3.And)
    __rand__ = __and__
    __mul__ = __and__           # product of two bits (np.outer): the GF(2) product
    __rmul__ = __and__

    def __or__(self, o):
        return self._bin(o, z3.Or)
    __ror__ = __or__

    def __invert__(self):
        return _mk(z3.Not(self.e))

    def __mod__(self, o):
        if int(o) == 2:
            return self
        return NotImplemented

    # integer view: sums of bits
    def as_int(self):
        return z3.If(self.e, z3.IntVal(1), z3.IntVal(0))

    def __add__(self, o):
        return SInt(self.as_int()) + o
    __radd__ = __add__

    def __eq__(self, o):
        t = _term(o)
        if t is None:
            if isinstance(o, (int, np.integer)):
                return 0
            return NotImplemented
        return _mk(_z(self.e) == _z(t))

    def __ne__(self, o):
        r = self.__eq__(o)
        return r if r is NotImplemented else (1 - r if isinstance(r, int) else ~r)


def _int_term(x):
    if isinstance(x, SInt):
        return x.t
    if isinstance(x, Bit):
        return x.as_int()
    if isinstance(x, (bool, np.bool_)):
        return z3.IntVal(int(x))
    if isinstance(x, (int, np.integer)):
        return z3.IntVal(int(x))
    return None


class SInt:
    """symbolic integer (z3 Int term): sums of bits, shifted / reduced symbolic integers"""
    __slots__ = ("t",)
    __array_priority__ = 1000

    def __init__(self, t):
        self.t = t

    def __repr__(self):
        return f"SInt({self.t})"

    def __hash__(self):
        return hash(self.t)

    def _arith(self, o, f):
        t = _int_term(o)
        if t is None:
            return NotImplemented
        r = z3.simplify(f(self.t, t))
        return int(r.as_long()) if z3.is_int_value(r) else SInt(r)

    def __add__(self, o):
        return self._arith(o, lambda a, b: a + b)
    __radd__ = __add__

    def __sub__(self, o):
        return self._arith(o, lambda a, b: a - b)

    def __mul__(self, o):
        return self._arith(o, lambda a, b: a * b)
    __rmul__ = __mul__

    def __rshift__(self, o):
        k = int(o)
        if k < 0:
            raise ValueError("negative shift count")
        return self._arith(0, lambda a, b: a / (2 ** k))          # floor division by a positive constant == python >>

    def __mod__(self, o):
        k = int(o)
        if k <= 0:
            return NotImplemented
        return self._arith(0, lambda a, b: a % k)                 # z3 mod with a positive modulus == python %

    def __and__(self, o):
        if isinstance(o, (int, np.integer)) and int(o) == 1:
            return self % 2
        return NotImplemented
    __rand__ = __and__

    def __floordiv__(self, o):
        k = int(o)
        if k <= 0:
            return NotImplemented
        return self._arith(0, lambda a, b: a / k)

    def _cmp(self, o, f):
        t = _int_term(o)
        if t is None:
            return NotImplemented
        return _mk(f(self.t, t))

    def __eq__(self, o):
        return self._cmp(o, lambda a, b: a == b)

    def __ne__(self, o):
        return self._cmp(o, lambda a, b: a != b)

    def __lt__(self, o):
        return self._cmp(o, lambda a, b: a < b)

    def __le__(self, o):
        return self._cmp(o, lambda a, b: a <= b)

    def __gt__(self, o):
        return self._cmp(o, lambda a, b: a > b)

    def __ge__(self, o):
        return self._cmp(o, lambda a, b: a >= b)

    def __bool__(self):
        if _CUR is None:
            raise RuntimeError("bool() of a symbolic integer outside explore()")
        return _CUR.decide(self.t != 0)


class SymInt(int):
    """a symbolic python `int` (passes isinstance(x, int)): `>>` with a numpy array of shift counts gives an object array of SInt"""

    def __new__(cls, term):
        obj = int.__new__(cls, 0)
        obj.s = SInt(term)
        return obj

    def __rshift__(self, o):
        if isinstance(o, np.ndarray):
            out = np.empty(o.shape, dtype=object)
            for idx, k in np.ndenumerate(o):
                out[idx] = self.s >> int(k)
            return out
        return self.s >> o

    def __mod__(self, o):
        return self.s % o


def bit_array(shape, name):
    """object array of fresh input bits name[i,j,...] (+ the array of their z3 constants)"""
    a = np.empty(shape, dtype=object)
    v = np.empty(shape, dtype=object)
    for idx in np.ndindex(*shape) if shape else [()]:
        c = z3.Bool(f"{name}{list(idx)}")
        a[idx] = Bit(c)
        v[idx] = c
    return a, v


def terms(arr):
    """object array of Bit / 0 / 1 -> nested lists of z3 Bool terms"""
    a = np.asarray(arr, dtype=object)
    out = np.empty(a.shape, dtype=object)
    for idx, x in np.ndenumerate(a):
        t = _term(x)
        if t is None:
            raise TypeError(f"entry {x!r} is not a bit")
        out[idx] = _z(t)
    return out


class PathResult:
    def __init__(self, pc, decisions, value=None, exc=None, extra=None):
        self.pc, self.decisions, self.value, self.exc, self.extra = pc, decisions, value, exc, extra


def explore(fn, assumptions=(), max_paths=20000, budget_s=600, allowed_exc=(Exception,)):
    """run fn() once per feasible path.  fn builds its own symbolic inputs (same names on every run) and returns a value;
    exceptions of the real code end a path abnormally (recorded).  Returns the list of PathResult."""
    global _CUR
    work = [[]]
    out = []
    t0 = time.time()
    while work:
        if len(out) >= max_paths or time.time() - t0 > budget_s:
            raise PathBudget(f"more than {max_paths} paths / {budget_s}s")
        prefix = work.pop()
        p = Path(prefix, assumptions)
        _CUR = p
        try:
            try:
                v = fn()
                res = PathResult(None, None, value=v)
            except PathBudget:
                raise
            except allowed_exc as ex:  # the real code raised on this path
                if isinstance(ex, (RuntimeError,)) and "infeasible path" in str(ex):
                    raise
                res = PathResult(None, None, exc=ex)
        finally:
            _CUR = None
        res.pc, res.decisions = list(p.pc), list(p.decisions)
        out.append(res)
        work.extend(p.forks)
    return out


def covers_everything(results, assumptions=()):
    """the path conditions are exhaustive (their disjunction is valid under the assumptions) and pairwise disjoint by construction"""
    s = z3.Solver()
    for a in assumptions:
        s.add(a)
    s.add(z3.Not(z3.Or(*[z3.And(*r.pc) if r.pc else z3.BoolVal(True) for r in results])))
    return s.check() == z3.unsat


def prove(pc, goal):
    """(True, None) if pc => goal is valid, else (False, model)"""
    s = z3.Solver()
    for c in pc:
        s.add(c)
    s.add(z3.Not(goal) if not isinstance(goal, bool) else z3.BoolVal(not goal))
    r = s.check()
    if r == z3.unsat:
        return True, None
    if r == z3.sat:
        return False, s.model()
    return None, None


class StepBudget(Exception):
    """the code under test executed more source lines than the budget allows (non-termination guard; deterministic, no signals)"""


def with_step_budget(fn, filename_part, max_lines=200000):
    """call fn() counting the executed source lines of frames whose file name contains `filename_part`"""
    import sys
    count = [0]

    def local(frame, event, arg):
        if event == "line":
            count[0] += 1
            if count[0] > max_lines:
                raise StepBudget(f"more than {max_lines} lines executed")
        return local

    def tracer(frame, event, arg):
        if event == "call" and filename_part in frame.f_code.co_filename:
            return local
        return None
    old = sys.gettrace()
    sys.settrace(tracer)
    try:
        return fn()
    finally:
        sys.settrace(old)
