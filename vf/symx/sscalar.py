"""`SS`: a sympy-backed symbolic scalar for kernels outside the Laurent fragment (rational functions with square roots and
symbolic exponents: optimizer updates).  Same idea as `Sym`: the REAL code runs on it; identities are decided on the
resulting expressions (sqrt atoms named, rational-function normal form)."""
from __future__ import annotations

import numpy as np
import sympy as sp
import autoray

from .ring import Unsupported


CONSTANTS = {}      # float value -> sympy symbol (module constants such as a stabilising epsilon)
RADICANDS = []      # arguments of every sqrt taken during a trace
ORACLE = None       # callable(lhs_expr, op, rhs_expr) -> bool : answers comparisons (domain guards) and logs the assumption


class SS:
    __array_priority__ = 1000
    ndim = 0
    shape = ()
    size = 1
    requires_grad = True

    def __init__(self, e, requires_grad=True, cplx=False):
        self.e = sp.sympify(e)
        self.requires_grad = requires_grad
        self.cplx = bool(cplx) or self.e.has(sp.I)

    @property
    def dtype(self):
        # a float scalar multiplied by a python complex becomes complex (numpy semantics the kernels rely on for casts)
        return np.dtype("complex128") if self.cplx else np.dtype("float64")

    @staticmethod
    def _w(o):
        if isinstance(o, SS):
            return o.e
        if isinstance(o, np.ndarray):
            if o.ndim == 0:
                return SS._w(o[()])
            return NotImplemented
        if isinstance(o, (np.floating, np.integer)):
            o = o.item()
        if isinstance(o, float):
            if o in CONSTANTS:
                return CONSTANTS[o]
            return sp.nsimplify(o, rational=True) if o == round(o, 9) else sp.Float(o)
        if isinstance(o, (complex, np.complexfloating)):
            o = complex(o)
            return SS._w(o.real) + sp.I * SS._w(o.imag)
        if isinstance(o, (int, sp.Expr)):
            return sp.sympify(o)
        return NotImplemented

    def _bin(self, o, f):
        w = SS._w(o)
        if w is NotImplemented:
            if isinstance(o, np.ndarray) and o.ndim > 0:
                # `array <op> SS`: numpy defers to the scalar (array priority) and python then asks the reflected method: elementwise
                out = np.empty(o.shape, dtype=object)
                for idx, x in np.ndenumerate(o):
                    out[idx] = self._bin(x, f)
                return out
            return NotImplemented
        c = self.cplx or isinstance(o, (complex, np.complexfloating)) or (isinstance(o, SS) and o.cplx)
        return SS(f(self.e, w), cplx=c)

    def __add__(self, o):
        return self._bin(o, lambda a, b: a + b)

    __radd__ = __add__

    def __sub__(self, o):
        return self._bin(o, lambda a, b: a - b)

    def __rsub__(self, o):
        return self._bin(o, lambda a, b: b - a)

    def __mul__(self, o):
        return self._bin(o, lambda a, b: a * b)

    __rmul__ = __mul__

    def __truediv__(self, o):
        return self._bin(o, lambda a, b: a / b)

    def __rtruediv__(self, o):
        return self._bin(o, lambda a, b: b / a)

    def __pow__(self, o):
        return self._bin(o, lambda a, b: a ** b)

    def __rpow__(self, o):
        return self._bin(o, lambda a, b: b ** a)

    def __neg__(self):
        return SS(-self.e)

    def sqrt(self):
        RADICANDS.append(self.e)
        return SS(sp.sqrt(self.e), cplx=self.cplx)

    def exp(self):
        return SS(sp.exp(self.e))

    def conjugate(self):
        # parameters are real and (checked separately) every radicand is non-negative on the domain: only I changes sign
        return SS(self.e.subs(sp.I, -sp.I))

    conj = conjugate

    @property
    def real(self):
        return SS((self.e + self.e.subs(sp.I, -sp.I)) / 2)

    @property
    def imag(self):
        return SS((self.e - self.e.subs(sp.I, -sp.I)) / (2 * sp.I))

    def astype(self, *a, **k):
        return self

    def _cmp(self, o, op):
        w = SS._w(o)
        if w is NotImplemented:
            return NotImplemented
        if ORACLE is None:
            raise Unsupported("comparison on a symbolic value")
        return ORACLE(self.e, op, w)

    def __le__(self, o):
        return self._cmp(o, "<=")

    def __ge__(self, o):
        return self._cmp(o, ">=")

    def __lt__(self, o):
        return self._cmp(o, "<")

    def __gt__(self, o):
        return self._cmp(o, ">")

    def __bool__(self):
        raise Unsupported("branch on a symbolic value")

    def __float__(self):
        raise Unsupported("float() of a symbolic value")

    def __repr__(self):
        return f"SS({self.e})"


autoray.register_backend(SS, "numpy")


def is_zero_expr(e):
    """exact zero test for expressions built from symbols, + - * / ** and sqrt: name every distinct sqrt(...) and every
    power with symbolic exponent by a fresh symbol and compare as rational functions (sound: syntactic atoms)"""
    e = sp.sympify(e)
    atoms = {}

    def name(sub):
        if sub not in atoms:
            atoms[sub] = sp.Symbol(f"_atom{len(atoms)}", positive=True)
        return atoms[sub]

    def walk(x):
        if isinstance(x, sp.Pow):
            b, p = walk(x.base), x.exp
            if p.is_Integer:
                return b ** p
            if p.is_Rational and p.q == 2:
                return name(sp.Pow(sp.expand(b), sp.Rational(1, 2))) ** p.p
            return name(sp.Pow(sp.expand(b), walk(p)))
        if x.args and not isinstance(x, sp.core.function.AppliedUndef):
            return x.func(*[walk(a) for a in x.args])
        return x
    w = walk(e)
    num, _ = sp.fraction(sp.together(w))
    return sp.expand(num) == 0
