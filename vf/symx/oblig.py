"""Obligation builders for the E2 front end: exact matrix identities between a traced real kernel and a reference."""
from __future__ import annotations

import math
import random
import zlib
import traceback

import numpy as np

from ..common import Outcome, Obligation, DISCHARGED, REFUTED, UNDECIDED, FAULT
from .ring import Unsupported, Poly, FLOAT_LOG
from .scalar import Sym, sym, poly_matrix, pm_diff_entries, pm_eval, pm_matmul, pm_dagger, pm_eye

TOL = 1e-9


def sample_point(names, rng):
    # generic points: rational multiples of pi with awkward denominators, away from symmetric values
    return {n: math.pi * rng.randint(-46, 46) / 23.0 + rng.uniform(-0.3, 0.3) for n in names}


def _np(x):
    a = np.asarray(x)
    if a.dtype == object:
        a = a.astype(complex)
    return a


def identity_obligation(name, kind, names, traced, reference, native=None, *, seed=0, finding=None, func=None,
                        size_bounded=False, sample=None, selfcheck=True, timeout=300, native_ref=None, bounded=False):
    """
    names     : parameter names (real parameters)
    traced    : callable(dict name->Sym) -> array-like of Sym/numbers   (runs the REAL code symbolically)
    reference : callable(dict name->Sym) -> array-like of Sym/numbers   (contract side)
    native    : callable(dict name->float) -> numeric array             (runs the REAL code natively; for replay)
    native_ref: optional callable(dict name->float) -> numeric array; default = float evaluation of the reference
    """

    def ref_numeric(env, R=None):
        if native_ref is not None:
            return _np(native_ref(env))
        if R is None:
            R = poly_matrix(reference({n: sym(n) for n in names}))
        return pm_eval(R, env)

    def replay(witness):
        env = {k: float(v) for k, v in (witness or {}).get("point", {}).items()}
        if native is None:
            return dict(confirmed=None, note="no native replay available")
        try:
            got = _np(native(env))
        except Exception as ex:  # pylint: disable=broad-except
            return dict(confirmed=True, note=f"native call raised {type(ex).__name__}: {ex}", point=env)
        want = ref_numeric(env)
        if got.shape != want.shape:
            return dict(confirmed=True, observed_shape=list(got.shape), expected_shape=list(want.shape), point=env)
        err = float(np.max(np.abs(got - want))) if got.size else 0.0
        idx = np.unravel_index(int(np.argmax(np.abs(got - want))), got.shape) if got.size else ()
        return dict(confirmed=bool(err > TOL), max_abs_err=err, at_entry=[int(i) for i in idx],
                    observed=str(got[idx]) if got.size else None, expected=str(want[idx]) if got.size else None,
                    point=env)

    def standin(rng, n=24):
        """bounded stand-in when the trace leaves the fragment: seeded float comparison native vs reference"""
        if native is None:
            return None
        for _ in range(n):
            env = sample_point(names, rng)
            r = replay(dict(point=env))
            if r.get("confirmed"):
                return dict(point=env), r
        return "passed"

    def fn():
        rng = random.Random(zlib.crc32(f"{seed}:{name}".encode()))
        if bounded:
            st = standin(rng, 64)
            if isinstance(st, tuple):
                return Outcome(REFUTED, "float-standin", "bounded stand-in found a mismatch", witness=st[0], replay=st[1])
            return Outcome(DISCHARGED, "float-standin(bounded: 64 seeded points, tol 1e-9)", "no mismatch")
        S = {n: sym(n) for n in names}
        try:
            Tm = poly_matrix(traced(S))
        except Exception as ex:  # pylint: disable=broad-except
            # Unsupported, or numpy/the kernel refusing object scalars (TypeError ...): the trace left the fragment
            st = None
            try:
                st = standin(rng)
            except Exception:  # pylint: disable=broad-except
                st = None
            if isinstance(st, tuple):
                w, r = st
                return Outcome(REFUTED, "float-standin", f"trace left the fragment ({ex}); bounded stand-in found a mismatch",
                               witness=w, replay=r)
            return Outcome(UNDECIDED, "trace", f"trace left the decidable fragment: {type(ex).__name__}: {ex}",
                           extra=dict(standin="passed" if st == "passed" else "unavailable", standin_points=24))
        Rm = poly_matrix(reference(S))
        if Tm.shape != Rm.shape:
            return Outcome(REFUTED, "shape", f"shape {Tm.shape} vs reference {Rm.shape}",
                           witness=dict(point={n: 0.37 + 0.1 * i for i, n in enumerate(names)}),
                           replay=replay(dict(point={n: 0.37 + 0.1 * i for i, n in enumerate(names)})))
        diff = pm_diff_entries(Tm, Rm)
        if not diff:
            if selfcheck and native is not None:
                env = sample_point(names, rng)
                try:
                    got = _np(native(env))
                    sy = pm_eval(Tm, env)
                    if got.shape != sy.shape or float(np.max(np.abs(got - sy))) > 1e-8:
                        return Outcome(FAULT, "selfcheck", f"symbolic trace disagrees with native execution at {env}")
                except Exception as ex:  # pylint: disable=broad-except
                    return Outcome(FAULT, "selfcheck", f"native execution failed in self-check: {ex!r}")
            return Outcome(DISCHARGED, "laurent-normal-form", f"{Tm.size} entries identical as Laurent polynomials")
        # refuted symbolically: look for a concrete point
        detail = "; ".join(f"entry {idx}: traced-ref = {str(d)[:160]}" for idx, d in diff[:3])
        for _ in range(40):
            env = sample_point(names, rng)
            if any(abs(d.evaluate(env)) > 1e-7 for _, d in diff):
                rp = replay(dict(point=env))
                return Outcome(REFUTED, "laurent-normal-form", detail, witness=dict(point=env, entries=[list(i) for i, _ in diff[:8]]),
                               replay=rp)
        return Outcome(REFUTED, "laurent-normal-form", detail + " (no float-visible witness point found)",
                       witness=dict(point=None, entries=[list(i) for i, _ in diff[:8]]),
                       replay=dict(confirmed=None, note="symbolic difference is non-zero but below float visibility"))

    return Obligation(name, kind, fn, finding=finding, func=func, size_bounded=size_bounded, sample=sample,
                      replay=replay, timeout=timeout, bounded=bounded)


def lemma_obligation(name, names, lhs, rhs, *, sample=None, timeout=300, size_bounded=False, finding=None, func=None,
                     native_lhs=None, native_rhs=None):
    """Identity between two symbolic expressions over the contract/reference side (no real kernel involved unless
    native_* given for replay)."""
    return identity_obligation(name, "lemma", names, lhs, rhs, native=native_lhs, native_ref=native_rhs,
                               sample=sample, timeout=timeout, size_bounded=size_bounded, finding=finding, func=func,
                               selfcheck=False)


def unitary_lhs(build):
    def f(S):
        m = poly_matrix(build(S))
        return pm_matmul(m, pm_dagger(m))
    return f


def float_constants_log():
    return sorted(f"{x!r} -> {nm}" for x, (res, nm) in FLOAT_LOG.items() if res is not None and nm not in ("0",))[:60]
