"""E2b extension: symbolic REAL scalars for path-exhaustive execution of real numpy code (used together with vf/symx/bits.py).

`SReal` is a scalar that lives inside ordinary numpy *object* arrays and denotes a real number given by a z3 Real term over named
real parameters (eigenvalues, coefficients).  `+ - * /` build terms (exact real arithmetic: assumption float-as-real), comparisons
give `bits.Bit`s, so anything that needs a concrete truth value (`if`, `np.array_equal`, `np.sort`, `ndarray.all`) forks the current
`bits.Path` exactly as for symbolic bits.  No operation returns a python float: a code path that needs one (`float(x)`, `math.sqrt`)
raises TypeError, which the obligations report as "left the fragment" (undecided), never as a violation.
"""
from __future__ import annotations

from fractions import Fraction

import autoray
import numpy as np
import z3

from vf.symx import bits as B


def _real_term(x):
    if isinstance(x, SReal):
        return x.t
    if isinstance(x, B.SInt):
        return z3.ToReal(x.t)
    if isinstance(x, B.Bit):
        return z3.ToReal(x.as_int())
    if isinstance(x, (bool, np.bool_)):
        return z3.RealVal(int(x))
    if isinstance(x, (int, np.integer)):
        return z3.RealVal(int(x))
    if isinstance(x, (float, np.floating)):
        f = float(x)
        if f != f or f in (float("inf"), float("-inf")):
            return None
        fr = Fraction(f)                                  # exact value of the float
        return z3.RealVal(f"{fr.numerator}/{fr.denominator}")
    if isinstance(x, Fraction):
        return z3.RealVal(f"{x.numerator}/{x.denominator}")
    return None


class SReal:
    """a real number given by a z3 Real term"""
    __slots__ = ("t",)
    __array_priority__ = 2000

    def __init__(self, t):
        self.t = t

    def __repr__(self):
        return f"SReal({self.t})"

    def __hash__(self):
        # constant: equal VALUES must meet in dictionaries / sets, so every lookup compares with `==` (which forks the path)
        return 0x5EA1

    def _arith(self, o, f):
        t = _real_term(o)
        if t is None:
            return NotImplemented
        return SReal(z3.simplify(f(self.t, t)))

    def __add__(self, o):
        return self._arith(o, lambda a, b: a + b)
    __radd__ = __add__

    def __sub__(self, o):
        return self._arith(o, lambda a, b: a - b)

    def __rsub__(self, o):
        return self._arith(o, lambda a, b: b - a)

    def __mul__(self, o):
        return self._arith(o, lambda a, b: a * b)
    __rmul__ = __mul__

    def __truediv__(self, o):
        t = _real_term(o)
        if t is None:
            return NotImplemented
        if not isinstance(o, SReal) and z3.is_rational_value(z3.simplify(t)) and z3.simplify(t).numerator_as_long() == 0:
            raise ZeroDivisionError("division by zero")
        if isinstance(o, SReal) and bool(o == 0):          # forks the path
            raise ZeroDivisionError("division by zero")
        return SReal(z3.simplify(self.t / t))

    def __rtruediv__(self, o):
        t = _real_term(o)
        if t is None:
            return NotImplemented
        if bool(self == 0):
            raise ZeroDivisionError("division by zero")
        return SReal(z3.simplify(t / self.t))

    def __neg__(self):
        return SReal(z3.simplify(-self.t))

    def __pos__(self):
        return self

    def __pow__(self, o):
        if isinstance(o, (int, np.integer)) and 0 <= int(o) <= 4:
            r = z3.RealVal(1)
            for _ in range(int(o)):
                r = r * self.t
            return SReal(z3.simplify(r))
        return NotImplemented

    def conjugate(self):
        return self

    conj = conjugate

    @property
    def real(self):
        return self

    @property
    def imag(self):
        return 0

    def _cmp(self, o, f):
        t = _real_term(o)
        if t is None:
            return NotImplemented
        return B._mk(f(self.t, t))

    def __eq__(self, o):
        return self._cmp(o, lambda a, b: a == b)

    def __ne__(self, o):
        return self._cmp(o, lambda a, b: a != b)

    def __lt__(self, o):
        return self._cmp(o, lambda a, b: a < b)

    def __le__(self, o):
        return self._cmp(o, lambda a, b: a <= b)

    def __gt__(self, o):
        return self._cmp(o, lambda a, b: a > b)

    def __ge__(self, o):
        return self._cmp(o, lambda a, b: a >= b)

    def __bool__(self):
        return bool(self != 0)

    def __float__(self):
        raise TypeError("a symbolic real has no float value")

    def __int__(self):
        raise TypeError("a symbolic real has no integer value")

    def __index__(self):
        raise TypeError("a symbolic real cannot be used as an index")


autoray.register_backend(SReal, "numpy")          # qp.math dispatch on a bare scalar (np.mean of an object array returns one)


def real_array(n, name):
    """object array of n fresh real parameters name0.. (+ the list of their z3 constants)"""
    consts = [z3.Real(f"{name}{i}") for i in range(n)]
    a = np.empty((n,), dtype=object)
    for i, c in enumerate(consts):
        a[i] = SReal(c)
    return a, consts


def term_of(x):
    """z3 Real term of a result entry (SReal, number, bit)"""
    if isinstance(x, np.ndarray) and x.shape == ():
        x = x.item()
    t = _real_term(x)
    if t is None:
        raise TypeError(f"entry {x!r} ({type(x).__name__}) is not a real number")
    return t


def model_value(model, const, default=Fraction(0)):
    """exact rational value of a real constant in a model (algebraic values are approximated to 20 digits)"""
    v = model.eval(const, model_completion=True)
    if z3.is_rational_value(v):
        return Fraction(v.numerator_as_long(), v.denominator_as_long())
    if z3.is_algebraic_value(v):
        a = v.approx(20)
        return Fraction(a.numerator_as_long(), a.denominator_as_long())
    return default


# ---------------------------------------------------------------------------------------------------------------- memoised exploration
class CachedPath(B.Path):
    """bits.Path whose feasibility queries are memoised across runs: the answer to `is e / Not(e) satisfiable under the path condition`
    depends only on the terms, and scenario sweeps ask the same few questions about the parameters for every bit array"""

    def __init__(self, prefix, assumptions, cache):
        super().__init__(prefix, assumptions)
        self.cache = cache

    def decide(self, e) -> bool:
        if isinstance(e, bool):
            return e
        e = z3.simplify(e)
        if z3.is_true(e):
            return True
        if z3.is_false(e):
            return False
        if self.pos < len(self.prefix):
            d = self.prefix[self.pos]
        else:
            key = (tuple(c.sexpr() for c in self.pc), e.sexpr())
            hit = self.cache.get(key)
            if hit is None:
                self.n_checks += 2
                hit = self.cache[key] = (self.solver.check(e) == z3.sat, self.solver.check(z3.Not(e)) == z3.sat)
            can_t, can_f = hit
            if can_t and can_f:
                self.forks.append(self.decisions + [False])
                d = True
            elif can_t:
                d = True
            elif can_f:
                d = False
            else:
                raise RuntimeError("infeasible path condition")
        self.pos += 1
        self.decisions.append(d)
        c = e if d else z3.Not(e)
        self.pc.append(c)
        self.solver.add(c)
        return d


def explore(fn, cache, assumptions=(), max_paths=20000, allowed_exc=(Exception,)):
    """bits.explore with memoised feasibility queries (`cache`: a dict shared by the runs of one obligation)"""
    work = [[]]
    out = []
    while work:
        if len(out) >= max_paths:
            raise B.PathBudget(f"more than {max_paths} paths")
        p = CachedPath(work.pop(), assumptions, cache)
        B._CUR = p
        try:
            try:
                res = B.PathResult(None, None, value=fn())
            except B.PathBudget:
                raise
            except allowed_exc as ex:
                if isinstance(ex, RuntimeError) and "infeasible path" in str(ex):
                    raise
                res = B.PathResult(None, None, exc=ex)
        finally:
            B._CUR = None
        res.pc, res.decisions = list(p.pc), list(p.decisions)
        out.append(res)
        work.extend(p.forks)
    return out


def covers_everything(results, cache, assumptions=()):
    key = ("covers", tuple(tuple(c.sexpr() for c in r.pc) for r in results))
    if key not in cache:
        cache[key] = B.covers_everything(results, assumptions)
    return cache[key]


def pc_bindings(pc):
    """(parameter, numeral) pairs fixed by equalities of the path condition"""
    out = []
    for c in pc:
        if z3.is_eq(c):
            a, b = c.arg(0), c.arg(1)
            if z3.is_rational_value(a) and z3.is_const(b) and not z3.is_rational_value(b):
                out.append((b, a))
            elif z3.is_rational_value(b) and z3.is_const(a) and not z3.is_rational_value(a):
                out.append((a, b))
    return out


def difference_value(ta, tb, pc=()):
    """exact rational value of ta - tb when it is a constant (polynomial normal form, after substituting the parameters the path
    condition fixes), else None"""
    d = ta - tb
    binds = pc_bindings(pc)
    if binds:
        d = z3.substitute(d, *binds)
    d = z3.simplify(d, som=True)
    if z3.is_rational_value(d):
        return Fraction(d.numerator_as_long(), d.denominator_as_long())
    return None
