"""Axiomatic finite sequences (the Dafny/Boogie prelude encoding) for element sorts where z3's native sequence theory does not
combine with quantified invariants (membership / no-duplicates arguments over label sequences).

A sequence sort is an UNINTERPRETED sort with total functions LEN, AT, EMPTY, SNOC, APP, TAKE, DROP, MEM, IDX and the axioms
below (each with an E-matching trigger).  Every axiom is true in the intended model -- finite python lists over the element
sort, with AT returning a fixed default element outside [0, LEN) and TAKE/DROP clamping -- so the theory is consistent and
every consequence holds of real python sequences.  `tests/test_aseq_axioms.py`-style sanity: `selfcheck()` evaluates each
axiom on random small python lists (a transcription check of the axioms, run by the C45 check on every run).
"""
import itertools
import random

import z3

THEORIES = {}          # sort name -> ASeq


class ASeq:
    def __init__(self, elem_sort, name=None):
        self.elem = elem_sort
        self.name = name or f"ASeq_{elem_sort.name()}"
        S = self.sort = z3.DeclareSort(self.name)
        I, B, E = z3.IntSort(), z3.BoolSort(), elem_sort
        n = self.name
        self.LEN = z3.Function(f"{n}.len", S, I)
        self.AT = z3.Function(f"{n}.at", S, I, E)
        self.EMPTY = z3.Const(f"{n}.empty", S)
        self.SNOC = z3.Function(f"{n}.snoc", S, E, S)
        self.APP = z3.Function(f"{n}.app", S, S, S)
        self.TAKE = z3.Function(f"{n}.take", S, I, S)
        self.DROP = z3.Function(f"{n}.drop", S, I, S)
        self.MEM = z3.Function(f"{n}.mem", S, E, B)
        self.IDX = z3.Function(f"{n}.idx", S, E, I)          # FIRST index of an element that occurs
        self.EQ = z3.Function(f"{n}.eq", S, S, B)            # extensional equality (trigger for extensionality)
        self.NODUP = z3.Function(f"{n}.nodup", S, B)
        self.SetSort = z3.ArraySort(E, B)
        self.SETOF = z3.Function(f"{n}.setof", S, self.SetSort)          # set(seq)
        self.CARDSET = z3.Function(f"{n}.cardset", self.SetSort, I)      # len(a finite set) (arbitrary on infinite arrays)
        self.axioms = self._axioms()
        THEORIES[self.name] = self

    def _axioms(self):
        S, E = self.sort, self.elem
        t, u = z3.Consts("t u", S)
        x, y = z3.Consts("x y", E)
        k, n, a, b = z3.Ints("k n a b")
        LEN, AT, SNOC, APP, TAKE, DROP, MEM, IDX, EQ, NODUP = (self.LEN, self.AT, self.SNOC, self.APP, self.TAKE, self.DROP,
                                                            self.MEM, self.IDX, self.EQ, self.NODUP)
        SETOF, CARD = self.SETOF, lambda t_: self.CARDSET(self.SETOF(t_))

        def FA(vs, body, *pats):
            return z3.ForAll(vs, body, patterns=list(pats))
        inr = lambda k_, t_: z3.And(0 <= k_, k_ < LEN(t_))
        ax = [
            ("len>=0", FA([t], LEN(t) >= 0, LEN(t))),
            ("len-empty", LEN(self.EMPTY) == 0),
            ("len0-empty", FA([t], z3.Implies(LEN(t) == 0, t == self.EMPTY), LEN(t))),
            ("len-snoc", FA([t, x], LEN(SNOC(t, x)) == LEN(t) + 1, SNOC(t, x))),
            ("at-snoc", FA([t, x, k], AT(SNOC(t, x), k) == z3.If(k == LEN(t), x, AT(t, k)), AT(SNOC(t, x), k))),
            ("len-app", FA([t, u], LEN(APP(t, u)) == LEN(t) + LEN(u), APP(t, u))),
            ("at-app", FA([t, u, k], z3.Implies(inr(k, APP(t, u)), AT(APP(t, u), k) == z3.If(k < LEN(t), AT(t, k), AT(u, k - LEN(t)))),
                          AT(APP(t, u), k))),
            ("len-take", FA([t, n], z3.Implies(z3.And(0 <= n, n <= LEN(t)), LEN(TAKE(t, n)) == n), TAKE(t, n))),
            ("at-take", FA([t, n, k], z3.Implies(z3.And(0 <= k, k < n, n <= LEN(t)), AT(TAKE(t, n), k) == AT(t, k)), AT(TAKE(t, n), k))),
            ("len-drop", FA([t, n], z3.Implies(z3.And(0 <= n, n <= LEN(t)), LEN(DROP(t, n)) == LEN(t) - n), DROP(t, n))),
            ("at-drop", FA([t, n, k], z3.Implies(z3.And(0 <= n, 0 <= k, k + n < LEN(t)), AT(DROP(t, n), k) == AT(t, k + n)),
                           AT(DROP(t, n), k))),
            ("take-all", FA([t], TAKE(t, LEN(t)) == t, TAKE(t, LEN(t)))),
            ("mem-at", FA([t, k], z3.Implies(inr(k, t), MEM(t, AT(t, k))), AT(t, k))),
            ("mem-idx", FA([t, x], z3.Implies(MEM(t, x), z3.And(inr(IDX(t, x), t), AT(t, IDX(t, x)) == x)), MEM(t, x))),
            ("idx-first", FA([t, x, k], z3.Implies(z3.And(MEM(t, x), 0 <= k, k < IDX(t, x)), AT(t, k) != x), z3.MultiPattern(IDX(t, x), AT(t, k)))),
            ("mem-empty", FA([x], z3.Not(MEM(self.EMPTY, x)), MEM(self.EMPTY, x))),
            ("mem-snoc", FA([t, x, y], MEM(SNOC(t, x), y) == z3.Or(y == x, MEM(t, y)), MEM(SNOC(t, x), y))),
            ("mem-app", FA([t, u, y], MEM(APP(t, u), y) == z3.Or(MEM(t, y), MEM(u, y)), MEM(APP(t, u), y))),
            ("eq-def", FA([t, u], EQ(t, u) == z3.And(LEN(t) == LEN(u), z3.ForAll([k], z3.Implies(inr(k, t), AT(t, k) == AT(u, k)),
                                                                                  patterns=[AT(t, k), AT(u, k)])), EQ(t, u))),
            ("eq-ext", FA([t, u], z3.Implies(EQ(t, u), t == u), EQ(t, u))),
            ("nodup-def", FA([t], NODUP(t) == z3.ForAll([a, b], z3.Implies(z3.And(0 <= a, a < b, b < LEN(t)), AT(t, a) != AT(t, b)),
                                                         patterns=[z3.MultiPattern(AT(t, a), AT(t, b))]), NODUP(t))),
            ("setof-def", z3.ForAll([t, x], z3.Select(SETOF(t), x) == MEM(t, x),
                                    patterns=[z3.Select(SETOF(t), x), z3.MultiPattern(MEM(t, x), SETOF(t))])),
            ("card-range", FA([t], z3.And(0 <= CARD(t), CARD(t) <= LEN(t)), SETOF(t))),
            ("card-nodup", FA([t], (CARD(t) == LEN(t)) == NODUP(t), SETOF(t))),
            ("card-empty", CARD(self.EMPTY) == 0),
            ("card-snoc", FA([t, x], CARD(SNOC(t, x)) == CARD(t) + z3.If(MEM(t, x), 0, 1), SETOF(SNOC(t, x)))),
            # derived facts about prefixes (provable from the axioms above by a case split E-matching does not find by itself)
            ("mem-take-succ", FA([t, n, k, x], z3.Implies(z3.And(k == n + 1, 0 <= n, n < LEN(t)),
                                                        MEM(TAKE(t, k), x) == z3.Or(MEM(TAKE(t, n), x), x == AT(t, n))),
                                 z3.MultiPattern(MEM(TAKE(t, k), x), TAKE(t, n)))),
            ("mem-take-0", FA([t, x], z3.Not(MEM(TAKE(t, 0), x)), MEM(TAKE(t, 0), x))),
            ("mem-take-mem", FA([t, n, x], z3.Implies(z3.And(0 <= n, n <= LEN(t), MEM(TAKE(t, n), x)), MEM(t, x)), MEM(TAKE(t, n), x))),
            ("nodup-take", FA([t, n], z3.Implies(z3.And(NODUP(t), 0 <= n, n < LEN(t)), z3.Not(MEM(TAKE(t, n), AT(t, n)))),
                              z3.MultiPattern(TAKE(t, n), AT(t, n)))),
            ("nodup-snoc", FA([t, x], NODUP(SNOC(t, x)) == z3.And(NODUP(t), z3.Not(MEM(t, x))), NODUP(SNOC(t, x)))),
            ("nodup-empty", NODUP(self.EMPTY)),
            ("idx-at-nodup", FA([t, k], z3.Implies(z3.And(NODUP(t), 0 <= k, k < LEN(t)), IDX(t, AT(t, k)) == k),
                                z3.MultiPattern(NODUP(t), AT(t, k)))),
        ]
        self.axiom_names = [n_ for n_, _ in ax]
        return [f for _, f in ax]

    # ---- term builders ---------------------------------------------------------------------------------------------
    def of(self, elems):
        t = self.EMPTY
        for e in elems:
            t = self.SNOC(t, e)
        return t

    def sub(self, t, lo, n):
        """t[lo:lo+n] for 0 <= lo, 0 <= n, lo+n <= len"""
        return self.TAKE(self.DROP(t, lo), n)

    def nodup_q(self, t):
        """the quantified definition (for goals, where the defining axiom would need instantiating)"""
        a, b = z3.Ints("nd_a nd_b")
        return z3.ForAll([a, b], z3.Implies(z3.And(0 <= a, a < b, b < self.LEN(t)), self.AT(t, a) != self.AT(t, b)))


def theory_of(term):
    return THEORIES.get(term.sort().name())


def is_aseq(term):
    return isinstance(term, z3.ExprRef) and term.sort().name() in THEORIES


# ---- polymorphic sequence operations (native z3 sequences or axiomatic ones) --------------------------------------------
def s_len(t):
    th = theory_of(t)
    return th.LEN(t) if th else z3.Length(t)


def s_at(t, k):
    th = theory_of(t)
    return th.AT(t, k) if th else t[k]


def s_concat(a, b):
    th = theory_of(a)
    return th.APP(a, b) if th else z3.Concat(a, b)


def s_snoc(a, x):
    th = theory_of(a)
    return th.SNOC(a, x) if th else z3.Concat(a, z3.Unit(x))


def s_extract(t, lo, n):
    th = theory_of(t)
    return th.sub(t, lo, n) if th else z3.Extract(t, lo, n)


def s_contains(t, x):
    th = theory_of(t)
    return th.MEM(t, x) if th else z3.Contains(t, z3.Unit(x))


def s_eq(a, b):
    th = theory_of(a)
    return th.EQ(a, b) if th else a == b


def s_empty(seq_sort):
    th = THEORIES.get(seq_sort.name())
    return th.EMPTY if th else z3.Empty(seq_sort)


# ---- sanity: every axiom holds in the list model ---------------------------------------------------------------------------
def selfcheck(trials=300, seed=0):
    """evaluate the axioms' python transcription on random small lists: returns the list of failing axiom names"""
    rng = random.Random(seed)
    D = "d"          # default element outside the range

    def AT(t, k):
        return t[k] if 0 <= k < len(t) else D

    def TAKE(t, n):
        return t[:max(0, min(n, len(t)))]

    def DROP(t, n):
        return t[max(0, min(n, len(t))):]

    def IDX(t, x):
        return t.index(x) if x in t else 0
    bad = set()
    for _ in range(trials):
        t = [rng.choice("abc") for _ in range(rng.randint(0, 4))]
        u = [rng.choice("abc") for _ in range(rng.randint(0, 3))]
        x, y = rng.choice("abcd"), rng.choice("abcd")
        for k, n in itertools.product(range(-2, 8), range(-1, 6)):
            sn = t + [x]
            ap = t + u
            checks = {
                "at-snoc": AT(sn, k) == (x if k == len(t) else AT(t, k)),
                "at-app": (not 0 <= k < len(ap)) or AT(ap, k) == (AT(t, k) if k < len(t) else AT(u, k - len(t))),
                "len-take": (not 0 <= n <= len(t)) or len(TAKE(t, n)) == n,
                "at-take": (not (0 <= k < n <= len(t))) or AT(TAKE(t, n), k) == AT(t, k),
                "len-drop": (not 0 <= n <= len(t)) or len(DROP(t, n)) == len(t) - n,
                "at-drop": (not (0 <= n and 0 <= k and k + n < len(t))) or AT(DROP(t, n), k) == AT(t, k + n),
                "take-all": TAKE(t, len(t)) == t,
                "mem-at": (not 0 <= k < len(t)) or AT(t, k) in t,
                "mem-idx": (x not in t) or (0 <= IDX(t, x) < len(t) and AT(t, IDX(t, x)) == x),
                "idx-first": (not (x in t and 0 <= k < IDX(t, x))) or AT(t, k) != x,
                "mem-snoc": (y in sn) == (y == x or y in t),
                "mem-app": (y in ap) == (y in t or y in u),
                "card-range": 0 <= len(set(t)) <= len(t),
                "card-empty": len(set([])) == 0,
                "card-snoc": len(set(sn)) == len(set(t)) + (0 if x in t else 1),
                "mem-take-succ": (not 0 <= n < len(t)) or ((y in TAKE(t, n + 1)) == (y in TAKE(t, n) or y == AT(t, n))),
                "mem-take-0": y not in TAKE(t, 0),
                "mem-take-mem": (not (0 <= n <= len(t) and y in TAKE(t, n))) or y in t,
                "nodup-take": (not (len(set(t)) == len(t) and 0 <= n < len(t))) or AT(t, n) not in TAKE(t, n),
                "nodup-snoc": (len(set(sn)) == len(sn)) == (len(set(t)) == len(t) and x not in t),
                "nodup-empty": True,
                "idx-at-nodup": (not (len(set(t)) == len(t) and 0 <= k < len(t))) or IDX(t, AT(t, k)) == k,
                "card-nodup": (len(set(t)) == len(t)) == all(t[a] != t[b] for a in range(len(t)) for b in range(a + 1, len(t))),
            }
            bad |= {nm for nm, ok in checks.items() if not ok}
    return sorted(bad)
