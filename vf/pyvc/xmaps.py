"""Additive extensions of E1 (used by C46 / C47):

  UnionT / UnionV ...... a value whose class is ONE OF several in-scope classes, decided by the tag of a z3 datatype term
                         (elements of heterogeneous sequences: `for action in decomp: if isinstance(action, GateCount): ...`)
  DMapV ................ collections.defaultdict(int) / collections.Counter with symbolic contents: a TOTAL map key -> int
                         (value `default` outside the key set) plus the key set; optional `keyfn` projects key OBJECTS onto
                         their equality class (python dicts key on __eq__/__hash__, not on identity)
  MapItems ............. `m.items()` of a symbolic map (dict comprehension / for loop over it)
  TypeOfV .............. `type(x)` of a union value

interp.py / engine.py only contain small delegating branches for these value kinds; no pre-existing case changes its meaning.
"""
from __future__ import annotations

import ast

import z3

from .engine import (T, Rec, RecT, MapV, SeqV, PyList, FuncRef, Unsupp, RaiseExc, PathEnd, TupleT, to_int_term, is_intlike)


def UnionT(*names):
    return T("union", *names)


def DMapT(key, val=None, **kw):
    """defaultdict(int)-like map type: MapT with default=0"""
    from .engine import Int
    kw.setdefault("default", 0)
    return T("map", key, val or Int, **kw)


# ------------------------------------------------------------------------------------------------ unions
def union_sort(world, t):
    key = ("union",) + tuple(t.args)
    if key not in world.tuple_dts:
        d = z3.Datatype("U_" + "_".join(t.args))
        for nm in t.args:
            d.declare("in_" + nm, ("as_" + nm, world.sort_of(RecT(nm))))
        world.tuple_dts[key] = d.create()
    return world.tuple_dts[key]


class UnionV:
    def __init__(self, term, t, world):
        self.term, self.t, self.world = term, t, world
        self.names = list(t.args)
        self.dt = union_sort(world, t)

    def snapshot(self):
        return self

    def recognizer(self, name):
        return self.dt.recognizer(self.names.index(name))(self.term)

    def view(self, name):
        i = self.names.index(name)
        return self.world.unbox(self.dt.accessor(i, 0)(self.term), RecT(name))

    def is_instance(self, nm):
        """z3 Bool: the value is an instance of class `nm` (exact class or a declared direct base)"""
        hits = [self.recognizer(c) for c in self.names if c == nm or nm in self.world.classes[c].bases]
        if not hits:
            return False
        return hits[0] if len(hits) == 1 else z3.Or(*hits)

    def __repr__(self):
        return f"UnionV({self.term})"


class TypeOfV:
    """type(x) for a union value x"""

    def __init__(self, u):
        self.u = u


def union_box(world, v, t):
    if isinstance(v, UnionV):
        return v.term
    if isinstance(v, Rec) and v.cls.name in t.args:
        dt = union_sort(world, t)
        return dt.constructor(list(t.args).index(v.cls.name))(world.box(v, RecT(v.cls.name)))
    raise Unsupp(f"boxing {v!r} as {t}")


def union_getattr(interp, u: UnionV, attr, node):
    for nm in u.names:
        if interp.ctx.branch(u.recognizer(nm)):
            return interp.getattr(u.view(nm), attr, node)
    raise PathEnd()


def union_isinstance(interp, u: UnionV, names):
    r = False
    for nm in names:
        r = interp.or_(r, u.is_instance(nm))
    return r


def type_equal(interp, a, b):
    """equality of type objects: TypeOfV vs class reference, class reference vs class reference"""
    if isinstance(a, TypeOfV) and isinstance(b, TypeOfV):
        raise Unsupp("equality of the types of two union values")
    if isinstance(b, TypeOfV):
        a, b = b, a
    if isinstance(a, TypeOfV):
        if isinstance(b, FuncRef) and b.kind in ("class", "builtin", "type"):
            nm = b.name.split(".")[-1]
            return a.u.recognizer(nm) if nm in a.u.names else False
        return False
    if isinstance(a, FuncRef) and isinstance(b, FuncRef):
        return a.name == b.name
    return False


# ------------------------------------------------------------------------------------------------ maps
class DMapV(MapV):
    """defaultdict(int) / Counter: total map (val[k] == default for k outside dom, by construction) + key set"""

    def __init__(self, dom, val, key_t, val_t, default=0, keyfn=None, keyobj_t=None, kind="defaultdict"):
        super().__init__(dom, val, key_t, val_t)
        self.default, self.keyfn, self.keyobj_t, self.kind = default, keyfn, keyobj_t or key_t, kind

    def snapshot(self):
        return DMapV(self.dom, self.val, self.key_t, self.val_t, self.default, self.keyfn, self.keyobj_t, self.kind)

    def __repr__(self):
        return f"DMapV[{self.kind}]({self.dom}, {self.val})"


class MapItems:
    def __init__(self, m):
        self.m = m


def map_key(world, m, k):
    fn = getattr(m, "keyfn", None)
    if fn is not None:
        return fn(k)
    return world.box(k, m.key_t)


def normalised_val(world, dom, val, default=0):
    """the total value function that is `default` outside the key set"""
    ks = dom.sort().domain()
    k = z3.Const("nk", ks)
    return z3.Lambda([k], z3.If(z3.Select(dom, k), z3.Select(val, k), z3.IntVal(default)))


def fresh_dmap(ctx, t, name):
    w = ctx.world
    ks, vs = w.sort_of(t.args[0]), w.sort_of(t.args[1])
    dom = z3.Const(ctx.fresh_name(name + ".dom"), z3.ArraySort(ks, z3.BoolSort()))
    raw = z3.Const(ctx.fresh_name(name + ".val"), z3.ArraySort(ks, vs))
    return DMapV(dom, normalised_val(w, dom, raw, t.kw["default"]), t.args[0], t.args[1], t.kw["default"], t.kw.get("keyfn"),
                 t.kw.get("keyobj"), t.kw.get("kind", "defaultdict"))


def empty_dmap(world, key_t, val_t=None, default=0, keyfn=None, keyobj_t=None, kind="defaultdict"):
    from .engine import Int
    val_t = val_t or Int
    ks = world.sort_of(key_t)
    return DMapV(z3.K(ks, z3.BoolVal(False)), z3.K(ks, z3.IntVal(default)), key_t, val_t, default, keyfn, keyobj_t, kind)


def dmap_getitem(interp, m: DMapV, idx):
    k = map_key(interp.world, m, idx)
    if m.kind == "defaultdict":
        m.dom = z3.Store(m.dom, k, z3.BoolVal(True))       # __missing__ inserts the default value
    return interp.world.unbox(z3.Select(m.val, k), m.val_t)


def map_setitem(interp, m: MapV, idx, v):
    w = interp.world
    k = map_key(w, m, idx)
    m.dom = z3.Store(m.dom, k, z3.BoolVal(True))
    m.val = z3.Store(m.val, k, w.box(v, m.val_t))


def map_nonempty(m: MapV):
    ks = m.dom.sort().domain()
    return m.dom != z3.K(ks, z3.BoolVal(False))


def map_binop(interp, op, a, b, node):
    if isinstance(op, ast.Add) and isinstance(a, DMapV) and isinstance(b, DMapV) and a.kind == "counter" and b.kind == "counter":
        # ASSUMED CONTRACT of collections.Counter.__add__: counts are added key by key, only POSITIVE sums are kept
        ks = a.dom.sort().domain()
        k = z3.Const("ck", ks)
        s = z3.Select(a.val, k) + z3.Select(b.val, k)
        return DMapV(z3.Lambda([k], s > 0), z3.Lambda([k], z3.If(s > 0, s, z3.IntVal(0))), a.key_t, a.val_t, 0, a.keyfn, a.keyobj_t,
                     "counter")
    raise RaiseExc("TypeError", node)


def as_dmap(interp, m, kind):
    """Counter(m) / defaultdict(int, m): a copy of the mapping m with default 0"""
    if isinstance(m, DMapV):
        return DMapV(m.dom, m.val, m.key_t, m.val_t, 0, m.keyfn, m.keyobj_t, kind)
    if isinstance(m, MapV):
        return DMapV(m.dom, normalised_val(interp.world, m.dom, m.val, 0), m.key_t, m.val_t, 0, getattr(m, "keyfn", None),
                     getattr(m, "keyobj_t", None), kind)
    raise Unsupp(f"{kind} of {m!r} (give the contract a typed constructor through extra_builtins)")


def b_Counter(interp, args, kw, node):
    if len(args) != 1 or kw:
        raise Unsupp("Counter() of this argument list")
    return as_dmap(interp, args[0], "counter")


def b_defaultdict(interp, args, kw, node):
    if not args or not (isinstance(args[0], FuncRef) and args[0].name == "int") or kw:
        raise Unsupp("defaultdict with a default factory other than int")
    if len(args) == 2:
        return as_dmap(interp, args[1], "defaultdict")
    raise Unsupp("defaultdict(int) without a mapping: the key type is not known (give the contract a typed constructor)")


def b_dict(interp, args, kw, node):
    if not args:
        return dict(kw)
    (m,) = args
    if isinstance(m, MapV):
        r = MapV(m.dom, m.val, m.key_t, m.val_t)
        r.normal = isinstance(m, DMapV)        # the value function is `default` outside the key set
        if getattr(m, "keyfn", None) is not None:
            r.keyfn, r.keyobj_t = m.keyfn, m.keyobj_t
        return r
    if isinstance(m, dict):
        return dict(m, **kw)
    raise Unsupp(f"dict() of {m!r}")


def map_method(interp, m: MapV, name, args, kw, node):
    """methods of symbolic maps; returns NotImplemented when the method is not modelled here"""
    if name == "items" and not args:
        return MapItems(m)
    if name == "get":
        k = map_key(interp.world, m, args[0])
        if isinstance(m, DMapV):
            d = args[1] if len(args) > 1 else None
            if d is None or not is_intlike(d):
                raise Unsupp("dict.get on a symbolic map with a non-integer default")
            return z3.If(z3.Select(m.dom, k), z3.Select(m.val, k), to_int_term(d))
        raise Unsupp("dict.get on a plain symbolic map")
    if name == "copy" and not args:
        return m.snapshot()
    return NotImplemented


def dictcomp_over_items(interp, n, env):
    """{k: f(k, v) for k, v in m.items()} over a symbolic map m (keys kept): same key set, value function k -> f(k, m[k]).
    Returns NotImplemented when the comprehension does not have this shape."""
    if len(n.generators) != 1 or n.generators[0].ifs:
        return NotImplemented
    g = n.generators[0]
    it = interp.eval(g.iter, env)
    if not isinstance(it, MapItems):
        return NotImplemented
    m = it.m
    t = g.target
    if not (isinstance(t, ast.Tuple) and len(t.elts) == 2 and all(isinstance(e, ast.Name) for e in t.elts)
            and isinstance(n.key, ast.Name) and n.key.id == t.elts[0].id):
        raise Unsupp("dict comprehension over a symbolic map that renames its keys")
    if getattr(m, "keyfn", None) is not None:
        raise Unsupp("dict comprehension over a symbolic map with projected keys")
    w = interp.world
    ks = m.dom.sort().domain()
    kk = z3.Const(interp.ctx.fresh_name("dk"), ks)
    e2 = dict(env)
    e2[t.elts[0].id] = w.unbox(kk, m.key_t)
    e2[t.elts[1].id] = w.unbox(z3.Select(m.val, kk), m.val_t)
    interp.pure += 1
    interp.ctx.pure_vars.append(kk)
    try:
        body = interp.eval(n.value, e2)
    finally:
        interp.pure -= 1
        interp.ctx.pure_vars.pop()
    return MapV(m.dom, z3.Lambda([kk], w.box(body, m.val_t)), m.key_t, m.val_t)


def enumerate_items(interp, m: MapV):
    """list(m.items()): SOME enumeration of the (key object, value) pairs -- ASSUMED CONTRACT of dict iteration: every key of the
    map occurs exactly once (order unspecified).  The enumeration is recorded in ghost.map_items for the contracts."""
    w, ctx = interp.world, interp.ctx
    kobj_t = getattr(m, "keyobj_t", None) or m.key_t
    et = TupleT(kobj_t, m.val_t)
    es = w.sort_of(et)
    items = z3.Const(ctx.fresh_name("items"), z3.SeqSort(es))
    i, j = z3.Int("mi_i"), z3.Int("mi_j")
    n = z3.Length(items)

    def key_at(x):
        return map_key(w, m, w.unbox(es.accessor(0, 0)(items[x]), kobj_t))
    dom, val = m.dom, m.val
    ctx.assume(z3.ForAll([i], z3.Implies(z3.And(i >= 0, i < n), z3.And(z3.Select(dom, key_at(i)),
                                                                      z3.Select(val, key_at(i)) == es.accessor(0, 1)(items[i]))),
                         patterns=[items[i]]))
    ctx.assume(z3.ForAll([i, j], z3.Implies(z3.And(i >= 0, i < j, j < n), key_at(i) != key_at(j)),
                         patterns=[z3.MultiPattern(items[i], items[j])]))
    ks = dom.sort().domain()
    pos = z3.Function(ctx.fresh_name("pos_of_key"), ks, z3.IntSort())
    k = z3.Const("mi_k", ks)
    ctx.assume(z3.ForAll([k], z3.Implies(z3.Select(dom, k), z3.And(pos(k) >= 0, pos(k) < n, key_at(pos(k)) == k)),
                         patterns=[pos(k)]))
    ctx.havocked = True
    ctx.ghost.setdefault("map_items", []).append((m.snapshot(), items, et))
    return SeqV(items, et, False)


# ------------------------------------------------------------------------------------------------ ordered dict, symbolic key identity
class ODictV:
    """python dict of CONCRETE size whose keys are objects with SYMBOLIC identity: an insertion-ordered association list of
    (key object, key term, value).  `keyfn(obj)` gives the z3 term the key is hashed/compared by (python dicts key on __eq__/__hash__);
    lookups fork on the equality of key terms.  Values are ordinary values (mutable ones alias as in python)."""

    def __init__(self, keyfn, entries=None):
        self.keyfn = keyfn
        self.entries = list(entries or [])

    def snapshot(self):
        snap = lambda x: x.snapshot() if hasattr(x, "snapshot") else (tuple(snap(y) for y in x) if isinstance(x, tuple) else x)
        return ODictV(self.keyfn, [(snap(k), t, snap(v)) for k, t, v in self.entries])

    def find(self, interp, key):
        kt = self.keyfn(key)
        for i, (_, t, _) in enumerate(self.entries):
            if interp.ctx.branch(t == kt):
                return i
        return None

    def concretize_value(self, world, model):
        from .engine import concretize
        return {"__odict__": [[concretize(world, k, model), concretize(world, v, model)] for k, _, v in self.entries]}

    def __repr__(self):
        return f"ODictV({[(k, v) for k, _, v in self.entries]})"


# ------------------------------------------------------------------------------------------------ in-place havoc (loop `modifies`)
def havoc_in_place(interp, v, name):
    """replace the CONTENTS of a mutable object by arbitrary values, keeping its identity (objects mutated through calls inside
    a loop body: the syntactic modified-set of the loop cut does not see them)"""
    ctx = interp.ctx
    if isinstance(v, Rec):
        for k, x in list(v.f.items()):
            if isinstance(x, (Rec, MapV, SeqV, PyList)):
                havoc_in_place(interp, x, f"{name}.{k}")
            else:
                v.f[k] = interp.fresh_like(x, f"{name}.{k}")
        return
    if isinstance(v, MapV):
        dom = z3.Const(ctx.fresh_name(name + ".dom"), v.dom.sort())
        raw = z3.Const(ctx.fresh_name(name + ".val"), v.val.sort())
        v.dom = dom
        v.val = normalised_val(interp.world, dom, raw, v.default) if isinstance(v, DMapV) else raw
        return
    if isinstance(v, SeqV):
        v.term = z3.Const(ctx.fresh_name(name), v.term.sort())
        return
    if isinstance(v, PyList):
        v.items = [interp.fresh_like(x, f"{name}[{i}]") for i, x in enumerate(v.items)]
        return
    raise Unsupp(f"cannot havoc {name} = {v!r} in place")


# ------------------------------------------------------------------------------------------------ models
def array_true_keys(model, arr, depth=0):
    """best effort: the indices a model's boolean array maps to True, read off a store chain / ite-lambda"""
    out = []
    e = model.eval(arr, model_completion=True)
    seen = 0
    while z3.is_app(e) and seen < 64:
        seen += 1
        if z3.is_store(e):
            a, k, v = e.children()
            if z3.is_true(v):
                out.append(k)
            e = a
            continue
        break
    return out


# ------------------------------------------------------------------------------------------------ interpreter with the new value kinds
def _make_xinterp():
    from .interp import Interp, Opaque

    class XInterp(Interp):
        """Interp + unions / defaultdict-Counter maps / map iteration / f-string hook / recursive-call contracts.
        Use: `case.interp_cls = XInterp` (contract.verify_case).  Every override handles only the NEW value kinds and delegates
        everything else to Interp."""

        # ---- truthiness / equality / isinstance / attributes
        def truthy(self, v):
            if isinstance(v, ODictV):
                return len(v.entries) > 0
            if isinstance(v, MapV):
                return map_nonempty(v)
            if isinstance(v, UnionV):
                return True
            return super().truthy(v)

        def equal(self, a, b):
            if isinstance(a, TypeOfV) or isinstance(b, TypeOfV) or (isinstance(a, FuncRef) and isinstance(b, FuncRef)):
                return type_equal(self, a, b)
            return super().equal(a, b)

        def isinstance_(self, v, texpr, env):
            if isinstance(v, UnionV):
                return union_isinstance(self, v, self.type_names(texpr, env))
            return super().isinstance_(v, texpr, env)

        def getattr(self, obj, attr, node=None):
            if isinstance(obj, UnionV):
                return union_getattr(self, obj, attr, node)
            if isinstance(obj, (MapItems, TypeOfV)):
                raise Unsupp(f"attribute {attr} of {obj!r}")
            if isinstance(obj, ODictV):
                from .engine import BoundMethod
                return BoundMethod(obj, attr)
            return super().getattr(obj, attr, node)

        def b_type(self, args, kw, node):
            if isinstance(args[0], UnionV):
                return TypeOfV(args[0])
            return super().b_type(args, kw, node)

        def type_of(self, v):
            if isinstance(v, UnionV):
                return v.t
            return super().type_of(v)

        # ---- maps
        def _index_maps(self, obj, idx, node=None):
            if isinstance(obj, ODictV):
                i = obj.find(self, idx)
                if i is None:
                    raise RaiseExc("KeyError", node)
                return obj.entries[i][2]
            if isinstance(obj, DMapV):
                return dmap_getitem(self, obj, idx)
            if isinstance(obj, MapV) and getattr(obj, "keyfn", None) is not None:
                k = map_key(self.world, obj, idx)
                if self.ctx.branch(z3.Select(obj.dom, k)):
                    return self.world.unbox(z3.Select(obj.val, k), obj.val_t)
                raise RaiseExc("KeyError", node)
            return super().index(obj, idx, node)

        def assign(self, t, v, env):
            if isinstance(t, ast.Subscript):
                obj = self.eval(t.value, env)
                if isinstance(obj, MapV):
                    map_setitem(self, obj, self.eval(t.slice, env), v)
                    return
                if isinstance(obj, ODictV):
                    key = self.eval(t.slice, env)
                    i = obj.find(self, key)
                    if i is None:
                        obj.entries.append((key, obj.keyfn(key), v))
                    else:
                        obj.entries[i] = (obj.entries[i][0], obj.entries[i][1], v)      # the first key object is kept, as in python
                    return
            return super().assign(t, v, env)

        def s_AugAssign(self, s, env):
            # d[k] += v on a symbolic map: evaluate the container and the key ONCE (python evaluates them once)
            if isinstance(s.target, ast.Subscript):
                obj = self.eval(s.target.value, env)
                if isinstance(obj, MapV):
                    idx = self.eval(s.target.slice, env)
                    cur = self.index(obj, idx, s)
                    rhs = self.eval(s.value, env)
                    map_setitem(self, obj, idx, self.binop(s.op, cur, rhs, s))
                    return
            return super().s_AugAssign(s, env)

        def binop(self, op, a, b, node=None):
            if isinstance(a, str) and isinstance(b, str) and isinstance(op, ast.Add):
                return a + b
            if isinstance(op, ast.LShift) and "lshift" in self.world.extra_builtins and is_intlike(a) and is_intlike(b) \
                    and not (isinstance(a, int) and isinstance(b, int)):
                # a << b with a symbolic operand: the contract's model (e.g. a * 2^b through a spec function); refused before
                return self.world.extra_builtins["lshift"](self, [a, b], {})
            if isinstance(a, MapV) or isinstance(b, MapV):
                return map_binop(self, op, a, b, node)
            return super().binop(op, a, b, node)

        def contains(self, container, x):
            if isinstance(container, ODictV):
                return container.find(self, x) is not None
            if isinstance(container, MapV) and getattr(container, "keyfn", None) is not None:
                return z3.Select(container.dom, map_key(self.world, container, x))
            return super().contains(container, x)

        def builtin(self, name, args, kwargs, node):
            if name not in self.world.extra_builtins:
                short = name.split(".")[-1]
                if short == "Counter":
                    return b_Counter(self, args, kwargs, node)
                if short == "defaultdict":
                    return b_defaultdict(self, args, kwargs, node)
                if name == "dict":
                    return b_dict(self, args, kwargs, node)
            return super().builtin(name, args, kwargs, node)

        def method_of_builtin(self, o, name, args, kw, node):
            if isinstance(o, str) and name == "join" and len(args) == 1:
                parts = self.iter_concrete(args[0])
                if all(isinstance(x, str) for x in parts):
                    return o.join(parts)
            if isinstance(o, str) and name == "format" and all(isinstance(x, (int, str)) and not isinstance(x, bool) for x in args) \
                    and all(isinstance(x, (int, str)) for x in kw.values()):
                return o.format(*args, **kw)
            if isinstance(o, ODictV):
                if name == "items" and not args:
                    return PyList([(k, v) for k, _, v in o.entries])
                if name == "values" and not args:
                    return PyList([v for _, _, v in o.entries])
                if name == "keys" and not args:
                    return PyList([k for k, _, _ in o.entries])
                if name == "get":
                    i = o.find(self, args[0])
                    return o.entries[i][2] if i is not None else (args[1] if len(args) > 1 else None)
                raise Unsupp(f"method {name} of an ordered dict with symbolic keys")
            if isinstance(o, MapV):
                r = map_method(self, o, name, args, kw, node)
                if r is not NotImplemented:
                    return r
            return super().method_of_builtin(o, name, args, kw, node)

        def b_len(self, args, kw, node):
            if isinstance(args[0], ODictV):
                return len(args[0].entries)
            if isinstance(args[0], MapV):
                raise Unsupp("len of a symbolic map (cardinality is not modelled)")
            return super().b_len(args, kw, node)

        def e_DictComp(self, n, env):
            r = dictcomp_over_items(self, n, env)
            if r is not NotImplemented:
                return r
            pairs = self.comp(n, env, lambda e: (self.eval(n.key, e), self.eval(n.value, e)))
            if all(isinstance(k, (str, int)) for k, _ in pairs):
                return dict(pairs)
            if all(is_intlike(k) for k, _ in pairs):
                # keys with symbolic identity (integers): an insertion-ordered association list, lookups fork on key equality
                d = ODictV(to_int_term)
                for k, v in pairs:
                    i = d.find(self, k)
                    if i is None:
                        d.entries.append((k, to_int_term(k), v))
                    else:
                        d.entries[i] = (d.entries[i][0], d.entries[i][1], v)
                return d
            raise Unsupp("dict comprehension with keys of this kind")

        def s_For(self, s, env):
            # for k, v in m.items(): ...   over a symbolic map: iterate SOME enumeration of its items (loop contract required)
            if isinstance(s.iter, ast.Call) and isinstance(s.iter.func, ast.Attribute) and s.iter.func.attr == "items" \
                    and not s.iter.args:
                base = self.eval(s.iter.func.value, env)
                if isinstance(base, MapV):
                    ordinal = self.next_loop()
                    return self.sym_for(s, env, enumerate_items(self, base), ordinal)
            return super().s_For(s, env)

        # ---- ordered dicts with symbolic key identity (ODictV): created by an EMPTY dict literal when the contract supplies a key
        # function through extra_builtins["odict_keyfn"]
        def e_Dict(self, n, env):
            kf = self.world.extra_builtins.get("odict_keyfn")
            if kf is not None and not n.keys:
                return ODictV(lambda obj, kf=kf, it=self: kf(it, [obj], {}))
            if any(k is None for k in n.keys):
                # {**a, "k": v, **b}: dictionary unpacking of concrete-key dicts, later entries win (additive: refused before)
                d = {}
                for k, v in zip(n.keys, n.values):
                    if k is None:
                        part = self.eval(v, env)
                        if not isinstance(part, dict):
                            raise Unsupp("** unpacking of a non-dict inside a dict literal")
                        d.update(part)
                    else:
                        kk = self.eval(k, env)
                        if not isinstance(kk, (str, int)):
                            raise Unsupp("dict literal with symbolic key")
                        d[kk] = self.eval(v, env)
                return d
            return super().e_Dict(n, env)

        def iter_concrete(self, v):
            if isinstance(v, ODictV):
                return [k for k, _, _ in v.entries]
            return super().iter_concrete(v)

        # ---- CONCRETE strings are operated on by python itself (indexing, +, join, format, str(), int(s, base)); additive: these
        # cases were refused or opaque before.  Dictionaries: `del d[k]`, comprehensions with symbolic keys (-> ODictV)
        def index(self, obj, idx, node=None):
            if isinstance(obj, str) and isinstance(idx, int) and not isinstance(idx, bool):
                if -len(obj) <= idx < len(obj):
                    return obj[idx]
                raise RaiseExc("IndexError", node)
            return self._index_maps(obj, idx, node)

        def b_str(self, args, kw, node):
            if len(args) == 1 and isinstance(args[0], (int, str)) and not isinstance(args[0], bool) and "str" not in self.world.extra_builtins:
                return str(args[0])
            return super().b_str(args, kw, node)

        def b_int(self, args, kw, node):
            if len(args) == 2 and isinstance(args[0], str) and isinstance(args[1], int):
                try:
                    return int(args[0], args[1])
                except ValueError:
                    raise RaiseExc("ValueError", node) from None
            return super().b_int(args, kw, node)

        def s_Delete(self, s, env):
            rest = []
            for t in s.targets:
                if isinstance(t, ast.Subscript) and not isinstance(t.slice, ast.Slice):
                    obj = self.eval(t.value, env)
                    if isinstance(obj, dict) or isinstance(obj, ODictV):
                        key = self.eval(t.slice, env)
                        if isinstance(obj, dict):
                            if not isinstance(key, (str, int)):
                                raise Unsupp("del of a symbolic key of a concrete dict")
                            if key not in obj:
                                raise RaiseExc("KeyError", s)
                            del obj[key]
                        else:
                            i = obj.find(self, key)
                            if i is None:
                                raise RaiseExc("KeyError", s)
                            del obj.entries[i]
                        continue
                rest.append(t)
            if rest:
                s2 = ast.Delete(targets=rest)
                ast.copy_location(s2, s)
                return super().s_Delete(s2, env)

        # ---- generator expressions over CONCRETE lists without path forks (opt-in: extra_builtins["pure_generators"]): the element
        # expression is evaluated in pure mode (boolean operators become formulas), as for quantified comprehensions; falls back to
        # the forking evaluation when an operand is partial.  all(p(s) for s in nine_elements) then costs one formula, not 3^9 paths
        def e_GeneratorExp(self, n, env):
            if self.world.extra_builtins.get("pure_generators") and not self.pure:
                mark = (len(self.ctx.decisions), len(self.ctx.forks), self.ctx.pos)
                self.pure += 1
                try:
                    r = super().e_GeneratorExp(n, env)
                    if mark == (len(self.ctx.decisions), len(self.ctx.forks), self.ctx.pos):
                        return r
                except Unsupp:
                    pass
                finally:
                    self.pure -= 1
                if mark != (len(self.ctx.decisions), len(self.ctx.forks), self.ctx.pos):
                    raise Unsupp("generator expression forked in pure mode")
            return super().e_GeneratorExp(n, env)

        # ---- strings: contracts may give f-strings a meaning (labels built from symbolic parts)
        def e_JoinedStr(self, n, env):
            hook = self.world.extra_builtins.get("fstring")
            if hook is None:
                return super().e_JoinedStr(n, env)
            parts = []
            for v in n.values:
                if isinstance(v, ast.Constant):
                    parts.append(v.value)
                elif isinstance(v, ast.FormattedValue):
                    parts.append(self.eval(v.value, env))
                else:
                    raise Unsupp("f-string part")
            return hook(self, parts, {})

        # ---- calls: a RECURSIVE call of the function under contract uses the contract registered as "rec:<qualname>"
        def call_user(self, fn, args, kwargs, ci, qual=None):
            if qual and fn is self.top_fn:
                mc = self.world.modular.get("rec:" + qual)
                if mc is not None:
                    self.ctx.havocked = True
                    return mc(self, args, kwargs)
            return super().call_user(fn, args, kwargs, ci, qual=qual)

    return XInterp


_XI = None


def XInterp():
    """the extended interpreter class (created lazily: interp.py imports engine.py, which must not import interp.py)"""
    global _XI
    if _XI is None:
        _XI = _make_xinterp()
    return _XI


def use_xinterp(fc):
    """mark every case of a FnContract to be executed by the extended interpreter"""
    for c in fc.cases:
        c.interp_cls = XInterp()
        c.standin_on_unsupported = True      # out-of-reach edits are still searched natively with the executable contract
    return fc
