"""E1 `pyvc`: symbolic execution of the REAL function bodies (ast of /repo's working tree) into z3 verification conditions.

Values
  python ints/bools/str/None/float constants ......... themselves (concrete)
  symbolic int / bool ................................. z3 ArithRef (Int sort) / BoolRef
  symbolic float (A-float-as-real) .................... FloatV(z3 Real term)
  instance of an in-scope class ....................... Rec (mutable field dict, python identity = object identity)
  tuple ............................................... python tuple of values
  list (concrete length) .............................. PyList (mutable, python list of values)
  list/tuple of symbolic length ....................... SeqV (z3 Seq term + element type), mutable through `.term`
  label of an uninterpreted hashable sort ............. z3 const of LabelSort
Paths are explored by re-execution with a decision prefix; every VC is `path-condition => goal`.
"""
from __future__ import annotations

import ast
import itertools
import time

import z3

from ..common import find_def, parse_repo_file


def set_budget(solver, timeout_ms):
    """wall-clock budget + a DETERMINISTIC resource limit as backstop: z3's timeout is delivered by a timer thread and has been
    observed not to fire (forked workers, 5.1.0); the resource counter is advanced by the searching thread itself.  ~4-15M units
    per second are consumed, so the limit lies well above the wall-clock budget and only stops a search whose timer failed."""
    solver.set("timeout", int(timeout_ms))
    solver.set("rlimit", int(timeout_ms) * 40000)


class Unsupp(Exception):
    """construct outside the supported subset: the extractor refuses (=> undecided, never a violation)"""


class PathEnd(Exception):
    pass


class VCFailed(Exception):
    def __init__(self, label, model, detail=""):
        super().__init__(label)
        self.label, self.model, self.detail = label, model, detail


class VCUnknown(Exception):
    def __init__(self, label, detail=""):
        super().__init__(label)
        self.label, self.detail = label, detail


class RaiseExc(Exception):
    def __init__(self, name, node=None):
        super().__init__(name)
        self.name, self.node = name, node


class ReturnExc(Exception):
    def __init__(self, value):
        super().__init__("return")
        self.value = value


class BreakExc(Exception):
    pass


class ContinueExc(Exception):
    pass


# ------------------------------------------------------------------------------------------------
# types

LabelSort = z3.DeclareSort("Label")
UNIT_SORT, (UNIT_VAL,) = z3.EnumSort("NoneUnit", ["none_value"])
_sl = z3.Datatype("SliceObj")
_sl.declare("mk_slice", ("start", z3.IntSort()), ("stop", z3.IntSort()))
SLICE_DT = _sl.create()

from . import aseq as AQ        # noqa: E402  (axiomatic sequences; needs nothing from this module)
from .aseq import s_len, s_at, s_concat, s_snoc, s_extract, s_contains, s_eq, s_empty, is_aseq   # noqa: E402,F401


class T:
    """type descriptors for fresh symbolic values"""

    def __init__(self, kind, *args, **kw):
        self.kind, self.args, self.kw = kind, args, kw

    def __repr__(self):
        return f"T({self.kind}{',' if self.args else ''}{','.join(map(repr, self.args))})"


Int = T("int")
Bool = T("bool")
Float = T("float")
Label = T("label")
NoneT = T("none")


def RecT(name):
    return T("rec", name)


def SeqT(elem, **kw):
    return T("seq", elem, **kw)


def SetT(elem, **kw):
    return T("set", elem, **kw)


def MapT(key, val, **kw):
    """finite map key -> val (python dict with symbolic contents)"""
    return T("map", key, val, **kw)


def TupleT(*elems):
    return T("tuple", *elems)


def ListT(elem, n):
    """python list of fixed length n"""
    return T("list", elem, n)


class FloatV:
    """python float denoted by a real number (A-float-as-real)"""

    def __init__(self, term, int_term=None):
        self.t = term
        self.i = int_term          # set when the float is known to be integral: value == ToReal(int_term)
        self.q = None              # (a, b) when the value is the quotient of two integers a / b

    def __repr__(self):
        return f"FloatV({self.t})"


class Rec:
    """symbolic instance of an in-scope class"""

    def __init__(self, cls, fields=None):
        self.cls = cls          # ClassInfo
        self.f = dict(fields or {})
        self.origin = self      # object identity survives snapshots: old.x and new.x denote the same python object iff origins agree

    def __repr__(self):
        return f"<{self.cls.name} {self.f}>"

    def snapshot(self):
        r = Rec(self.cls, {k: snap(v) for k, v in self.f.items()})
        r.origin = self.origin
        return r


def snap(v):
    """pre-state copy of a value: mutable containers are copied (python dicts / tuples of them included), terms are shared"""
    if hasattr(v, "snapshot"):
        return v.snapshot()
    if isinstance(v, dict):
        return {k: snap(x) for k, x in v.items()}
    if isinstance(v, tuple):
        return tuple(snap(x) for x in v)
    return v


class PyList:
    def __init__(self, items):
        self.items = list(items)
        self.origin = self

    def snapshot(self):
        r = type(self)([snap(v) for v in self.items])
        r.origin = self.origin
        return r

    def __repr__(self):
        return f"PyList({self.items})"


class SeqV:
    """sequence of symbolic length: z3 Seq over the element sort"""

    def __init__(self, term, elem, is_tuple=False):
        self.term, self.elem, self.is_tuple = term, elem, is_tuple

    def snapshot(self):
        return SeqV(self.term, self.elem, self.is_tuple)

    def __repr__(self):
        return f"SeqV({self.term})"


class SetV:
    """finite set of symbolic contents: a z3 array elem -> Bool (mutable python object: .term is re-assigned by update/add)"""

    def __init__(self, term, elem):
        self.term, self.elem = term, elem

    def snapshot(self):
        return SetV(self.term, self.elem)

    def __repr__(self):
        return f"SetV({self.term})"


class MapV:
    """finite map of symbolic contents: domain array key -> Bool and value array key -> val"""

    def __init__(self, dom, val, key_t, val_t):
        self.dom, self.val, self.key_t, self.val_t = dom, val, key_t, val_t

    def snapshot(self):
        return MapV(self.dom, self.val, self.key_t, self.val_t)

    def __repr__(self):
        return f"MapV({self.dom}, {self.val})"


class UFunc:
    """an uninterpreted real function passed as an argument (objective functions, callbacks)"""

    def __init__(self, name, arity=1):
        self.name, self.arity = name, arity
        self.f = z3.Function(name, *([z3.RealSort()] * (arity + 1)))
        self.calls = []

    def __call__(self, *xs):
        return self.f(*xs)


class Opaque:
    """a value we do not interpret (message strings, exception objects, modules)"""

    def __init__(self, what):
        self.what = what

    def __repr__(self):
        return f"<opaque {self.what}>"


class Model:
    """a contract-defined value with behaviour (uninterpreted callables, functools.partial objects, ...): the interpreter calls
    `vf_call(interp, args, kwargs)`, compares with `vf_eq(other)` (default: identity, as for python functions) and treats it as
    truthy; plain python attributes may be read and written"""

    def vf_call(self, interp, args, kwargs):
        raise Unsupp(f"{self!r} is not callable")

    def vf_eq(self, other):
        return self is other


class ExcValue:
    def __init__(self, name):
        self.name = name


class BoundMethod:
    def __init__(self, obj, name):
        self.obj, self.name = obj, name


class FuncRef:
    """an in-scope function or class known by name"""

    def __init__(self, kind, name, info=None):
        self.kind, self.name, self.info = kind, name, info


class ClassInfo:
    def __init__(self, name, node, fields, file, src):
        self.name, self.node, self.fields, self.file, self.src = name, node, fields, file, src
        self.methods, self.props, self.aliases, self.classmethods, self.staticmethods = {}, {}, {}, set(), set()
        self.class_attrs = {}
        self.bases = [b.id if isinstance(b, ast.Name) else (b.attr if isinstance(b, ast.Attribute) else "") for b in node.bases]
        self.is_namedtuple = "NamedTuple" in self.bases
        for n in node.body:
            if isinstance(n, ast.FunctionDef):
                decos = [d.id if isinstance(d, ast.Name) else (d.attr if isinstance(d, ast.Attribute) else "") for d in n.decorator_list]
                if "property" in decos or "cached_property" in decos:
                    # cached_property is read as a plain property: sound for functions of the object's current state only
                    # (the cache is never invalidated by the code under contract); listed under `dropped` by the contracts
                    self.props[n.name] = n
                elif "setter" in decos:
                    self.methods["__set_" + n.name] = n
                else:
                    self.methods[n.name] = n
                    if "classmethod" in decos:
                        self.classmethods.add(n.name)
                    if "staticmethod" in decos:
                        self.staticmethods.add(n.name)
            elif isinstance(n, ast.Assign) and len(n.targets) == 1 and isinstance(n.targets[0], ast.Name) \
                    and isinstance(n.value, ast.Name):
                self.aliases[n.targets[0].id] = n.value.id
            elif isinstance(n, ast.Assign) and len(n.targets) == 1 and isinstance(n.targets[0], ast.Name):
                self.class_attrs[n.targets[0].id] = n.value
            elif isinstance(n, ast.AnnAssign) and isinstance(n.target, ast.Name) and n.value is not None:
                self.class_attrs[n.target.id] = n.value
        for a, b in self.aliases.items():
            if b in self.methods:
                self.methods[a] = self.methods[b]
        self.dt = None

    def datatype(self, world):
        """z3 datatype for storing instances inside sequences"""
        if self.dt is None:
            d = z3.Datatype(self.name)
            d.declare("mk_" + self.name, *[(f, world.sort_of(t)) for f, t in self.fields.items()])
            self.dt = d.create()
        return self.dt


class World:
    """the in-scope classes/functions of one repo file + models for library calls"""

    def __init__(self, file, classes=None, functions=(), extra_builtins=None, modular=None, stubs=None):
        self.file = file
        self.src, self.tree = parse_repo_file(file)
        self.classes: dict[str, ClassInfo] = {}
        # stubs: abstract records for the ENVIRONMENT objects a function operates on (operators, measurement processes ...):
        # name -> (python source of a field-only class, fields).  They model inputs, never code under contract.
        self.stub_realize = {}
        for name, (stub_src, fields) in (stubs or {}).items():
            node = next(n for n in ast.parse(stub_src).body if isinstance(n, ast.ClassDef) and n.name == name)
            self.classes[name] = ClassInfo(name, node, fields, "<stub>", stub_src)
        for name, fields in (classes or {}).items():
            cfile = file
            if isinstance(fields, tuple):
                cfile, fields = fields
            csrc, node = find_def(cfile, name)
            self.classes[name] = ClassInfo(name, node, fields, cfile, csrc)
        self.functions = {}
        for fn in functions:
            _, node = find_def(file, fn)
            self.functions[fn] = node
        self.module_consts = {}
        for n in self.tree.body:
            if isinstance(n, ast.Assign) and len(n.targets) == 1 and isinstance(n.targets[0], ast.Name):
                self.module_consts[n.targets[0].id] = n.value
        self.extra_builtins = extra_builtins or {}
        self.modular = modular or {}      # qualname -> CalleeContract
        self.tuple_dts = {}
        self.theories = {}                # element sort name -> axiomatic sequence theory (axioms assumed on every path)

    def link_bases(self):
        """opt-in single inheritance between IN-SCOPE classes (additive, C06): a class gets the methods / properties / class attributes
        of its in-scope base classes that it does not define itself (nearest base first).  Bases that are not in scope contribute nothing."""
        done = set()

        def link(ci):
            if ci.name in done:
                return
            done.add(ci.name)
            for b in ci.bases:
                bi = self.classes.get(b)
                if bi is None or bi is ci:
                    continue
                link(bi)
                for table in ("methods", "props", "class_attrs"):
                    mine, theirs = getattr(ci, table), getattr(bi, table)
                    for k, v in theirs.items():
                        if k not in ci.methods and k not in ci.props and k not in ci.class_attrs:
                            mine[k] = v
                ci.classmethods |= {m for m in bi.classmethods if ci.methods.get(m) is bi.methods.get(m)}
                ci.staticmethods |= {m for m in bi.staticmethods if ci.methods.get(m) is bi.methods.get(m)}
        for ci in list(self.classes.values()):
            link(ci)
        return self

    def aseq(self, elem: "T"):
        es = self.sort_of(elem)
        if es.name() not in self.theories:
            self.theories[es.name()] = AQ.THEORIES.get(f"ASeq_{es.name()}") or AQ.ASeq(es)
        return self.theories[es.name()]

    def seq_sort(self, elem: "T", ax=False):
        return self.aseq(elem).sort if ax else z3.SeqSort(self.sort_of(elem))

    def sort_of(self, t: T):
        if t.kind == "int":
            return z3.IntSort()
        if t.kind == "bool":
            return z3.BoolSort()
        if t.kind == "float":
            return z3.RealSort()
        if t.kind == "label":
            return LabelSort
        if t.kind == "none":
            return UNIT_SORT                 # sequences of None (additive)
        if t.kind == "slice":
            return SLICE_DT                  # slice(start, stop) with integer bounds, step None (additive)
        if t.kind == "rec":
            return self.classes[t.args[0]].datatype(self)
        if t.kind == "seq":
            return self.seq_sort(t.args[0], t.kw.get("ax", False))
        if t.kind == "set":
            return z3.ArraySort(self.sort_of(t.args[0]), z3.BoolSort())
        if t.kind == "tuple":
            key = tuple(repr(a) for a in t.args)
            if key not in self.tuple_dts:
                d = z3.Datatype("Tup_" + "_".join(str(abs(hash(k)) % 10 ** 6) for k in key))
                d.declare("mk", *[(f"e{i}", self.sort_of(a)) for i, a in enumerate(t.args)])
                self.tuple_dts[key] = d.create()
            return self.tuple_dts[key]
        if t.kind == "union":        # tagged union of in-scope classes (xmaps.py)
            from . import xmaps
            return xmaps.union_sort(self, t)
        if t.kind == "map":
            return z3.ArraySort(self.sort_of(t.args[0]), self.sort_of(t.args[1]))
        raise Unsupp(f"no sort for type {t}")

    # boxing values into z3 terms of a sort (for sequence elements) and back
    def box(self, v, t: T):
        if t.kind == "int":
            return to_int_term(v)
        if t.kind == "bool":
            return to_bool_term(v)
        if t.kind == "float":
            return v.t if isinstance(v, FloatV) else z3.RealVal(v)
        if t.kind == "label":
            return v
        if t.kind == "none":
            if v is not None:
                raise Unsupp(f"boxing {v!r} as None")
            return UNIT_VAL
        if t.kind == "slice":
            if not isinstance(v, slice) or v.step is not None:
                raise Unsupp(f"boxing {v!r} as slice(start, stop)")
            return SLICE_DT.constructor(0)(to_int_term(v.start), to_int_term(v.stop))
        if t.kind == "rec":
            ci = self.classes[t.args[0]]
            if not isinstance(v, Rec) or v.cls is not ci:
                raise Unsupp(f"boxing {v!r} as {t}")
            dt = ci.datatype(self)
            return dt.constructor(0)(*[self.box(v.f[f], ft) for f, ft in ci.fields.items()])
        if t.kind == "tuple":
            dt = self.sort_of(t)
            if not isinstance(v, tuple) or len(v) != len(t.args):
                raise Unsupp(f"boxing {v!r} as {t}")
            return dt.constructor(0)(*[self.box(x, a) for x, a in zip(v, t.args)])
        if t.kind == "seq":
            if isinstance(v, SeqV):
                return v.term
            if isinstance(v, (PyList, tuple)):
                items = v.items if isinstance(v, PyList) else v
                if t.kw.get("ax"):
                    return self.aseq(t.args[0]).of([self.box(x, t.args[0]) for x in items])
                return seq_of([self.box(x, t.args[0]) for x in items], self.sort_of(t.args[0]))
        if t.kind == "union":
            from . import xmaps
            return xmaps.union_box(self, v, t)
        raise Unsupp(f"boxing as {t}")

    def unbox(self, term, t: T):
        if t.kind in ("int", "bool", "label"):
            return term
        if t.kind == "float":
            return FloatV(term)
        if t.kind == "none":
            return None
        if t.kind == "slice":
            return slice(SLICE_DT.accessor(0, 0)(term), SLICE_DT.accessor(0, 1)(term))
        if t.kind == "rec":
            ci = self.classes[t.args[0]]
            dt = ci.datatype(self)
            return Rec(ci, {f: self.unbox(dt.accessor(0, i)(term), ft) for i, (f, ft) in enumerate(ci.fields.items())})
        if t.kind == "tuple":
            dt = self.sort_of(t)
            return tuple(self.unbox(dt.accessor(0, i)(term), a) for i, a in enumerate(t.args))
        if t.kind == "seq":
            return SeqV(term, t.args[0])
        if t.kind == "set":
            return SetV(term, t.args[0])
        if t.kind == "union":
            from . import xmaps
            return xmaps.UnionV(term, t, self)
        raise Unsupp(f"unboxing {t}")


def seq_of(terms, sort):
    if not terms:
        return z3.Empty(z3.SeqSort(sort))
    units = [z3.Unit(x) for x in terms]
    return units[0] if len(units) == 1 else z3.Concat(*units)


def is_sym_int(v):
    return isinstance(v, z3.ArithRef) and v.is_int()


def is_sym_bool(v):
    return isinstance(v, z3.BoolRef)


def is_intlike(v):
    return isinstance(v, (int, bool)) or is_sym_int(v) or is_sym_bool(v)


def to_int_term(v):
    if isinstance(v, bool):
        return z3.IntVal(1 if v else 0)
    if isinstance(v, int):
        return z3.IntVal(v)
    if is_sym_int(v):
        return v
    if is_sym_bool(v):
        return z3.If(v, z3.IntVal(1), z3.IntVal(0))
    raise Unsupp(f"not an integer value: {v!r}")


def to_bool_term(v):
    if isinstance(v, bool):
        return z3.BoolVal(v)
    if is_sym_bool(v):
        return v
    raise Unsupp(f"not a bool value: {v!r}")


def py_floordiv(a, b):
    """Python // on ints for b != 0 (z3 div is floor for positive divisors)"""
    a, b = to_int_term(a), to_int_term(b)
    return z3.If(b > 0, a / b, (-a) / (-b))


def py_mod(a, b):
    a, b = to_int_term(a), to_int_term(b)
    if z3.is_int_value(b):
        return a - b * py_floordiv(a, b)
    # symbolic divisor: SMT-LIB mod (a = b*(a div b) + (a mod b), 0 <= a mod b < |b|) keeps the range facts linear;
    # python's remainder takes the sign of the divisor:  b > 0: a mod b;   b < 0: -((-a) mod (-b))
    return z3.If(b > 0, a % b, -((-a) % (-b)))


def real_of(v):
    if isinstance(v, FloatV):
        return v.t
    if isinstance(v, bool):
        return z3.RealVal(int(v))
    if isinstance(v, (int, float)):
        return z3.RealVal(repr(v) if isinstance(v, float) else v)
    if is_sym_int(v):
        return z3.ToReal(v)
    if is_sym_bool(v):
        return z3.If(v, z3.RealVal(1), z3.RealVal(0))
    raise Unsupp(f"not numeric: {v!r}")


# ------------------------------------------------------------------------------------------------
# path context


class Ctx:
    def __init__(self, world: World, prefix, timeout_ms=10000):
        self.world = world
        self.prefix = list(prefix)
        self.pos = 0
        self.decisions = []
        self.forks = []            # alternative prefixes discovered on this run
        if world.theories:
            # quantified sequence axioms: proofs come from E-matching; model-based instantiation only burns the budget (and
            # z3 does not honour its timeout inside an MBQI round).  Without it `unknown` comes back quickly, and an undecided
            # VC falls through to the bounded native search -- never to a violation.
            z3.set_param("smt.mbqi", False)
        else:
            z3.set_param("smt.mbqi", True)      # workers are reused: never inherit the setting of a previous obligation
        self.solver = z3.Solver()
        set_budget(self.solver, timeout_ms)
        self.timeout_ms = timeout_ms
        self.feas_timeout_ms = min(1500, timeout_ms)
        self.pc = []
        self.n_vcs = 0
        self.vc_log = []
        self.counter = itertools.count()
        self.depth = 0
        self.solver_time = 0.0
        self.ghost = {}
        self.float_ops = []        # float-producing operations seen on this path (exact_integer contracts flag them)
        self.havocked = False      # a loop cut / modular call replaced state by arbitrary values on this path
        # with quantified theory axioms present, path feasibility is decided on the quantifier-free part of the path condition
        # (fewer hypotheses: may keep an infeasible path, whose VCs are then vacuous -- never prunes a feasible one)
        self.pure_vars = []        # bound variables of the quantified comprehension bodies being evaluated
        self.qf_solver = None
        if world.theories:
            self.qf_solver = z3.Solver()
            set_budget(self.qf_solver, self.feas_timeout_ms)
        for th in world.theories.values():
            for ax in th.axioms:
                self.solver.add(ax)
                self.pc.append(ax)

    def fresh_name(self, base):
        return f"{base}!{next(self.counter)}"

    def assume(self, cond):
        if cond is True:
            return
        if cond is False:
            raise PathEnd()
        self.pc.append(cond)
        self.solver.add(cond)
        if self.qf_solver is not None and not has_quantifier(cond):
            self.qf_solver.add(cond)

    def _feasible(self, cond):
        if self.qf_solver is not None:
            t = time.time()
            r = self.qf_solver.check(cond)
            self.solver_time += time.time() - t
            return r != z3.unsat
        return self._check(cond) != z3.unsat

    def _check(self, *extra):
        t = time.time()
        r = self.solver.check(*extra)
        self.solver_time += time.time() - t
        return r

    def branch(self, cond) -> bool:
        """decide a (possibly symbolic) condition; forks the path when both outcomes are feasible"""
        if isinstance(cond, bool):
            return cond
        cond = z3.simplify(cond)
        if z3.is_true(cond):
            return True
        if z3.is_false(cond):
            return False
        if self.pure_vars and mentions(cond, self.pure_vars):
            raise Unsupp("path fork on the bound variable of a quantified comprehension (give the comprehension a loop contract)")
        if self.pos < len(self.prefix):
            d = self.prefix[self.pos]
        else:
            # feasibility is only an optimisation (an infeasible path has vacuous VCs): short budget, unknown = feasible
            set_budget(self.solver, self.feas_timeout_ms)
            can_t = self._feasible(cond)
            can_f = self._feasible(z3.Not(cond))
            set_budget(self.solver, self.timeout_ms)
            if can_t and can_f:
                self.forks.append(self.decisions + [False])
                d = True
            elif can_t:
                d = True
            elif can_f:
                d = False
            else:
                raise PathEnd()
        self.pos += 1
        self.decisions.append(d)
        self.assume(cond if d else z3.Not(cond))
        return d

    def prove(self, goal, label):
        """VC: path condition => goal"""
        self.n_vcs += 1
        if goal is True:
            self.vc_log.append((label, "trivial"))
            return
        if goal is False:
            goal = z3.BoolVal(False)
        set_budget(self.solver, min(3000, self.timeout_ms))
        r = self._check(z3.Not(goal))
        set_budget(self.solver, self.timeout_ms)
        if r == z3.unsat:
            self.vc_log.append((label, "unsat"))
            return
        if r == z3.sat:
            raise VCFailed(label, self.solver.model(), detail=str(z3.simplify(goal))[:400])
        # further attempts on a FRESH solver fed through the SMT-LIB printer/parser (z3's performance depends heavily on
        # term structure; the re-parsed problem is the same formula) -- first with a SUBSET of the hypotheses (sound: fewer
        # hypotheses can never make a wrong proof), the equational facts only, then with all of them
        keep = [f for f in self.pc if _eqish(f)]
        for hyps, tag in ((keep, "equational-hypotheses"), (self.pc, "reparsed")):
            t = time.time()
            r2 = fresh_check(list(hyps) + [z3.Not(goal)], self.timeout_ms)
            self.solver_time += time.time() - t
            if r2 == z3.unsat:
                self.vc_log.append((label, f"unsat({tag})"))
                return
        # last: the incremental solver again with the full budget (a model is needed for refutations)
        r = self._check(z3.Not(goal))
        if r == z3.unsat:
            self.vc_log.append((label, "unsat"))
            return
        if r == z3.sat:
            raise VCFailed(label, self.solver.model(), detail=str(z3.simplify(goal))[:400])
        import os
        if os.environ.get("PYVC_DUMP"):
            with open(os.path.join(os.environ["PYVC_DUMP"], f"vc_{label.replace('/', '_').replace(':', '_')}.smt2"), "w") as fh:
                s2 = z3.Solver()
                s2.add(*self.pc)
                s2.add(z3.Not(goal))
                fh.write(s2.to_smt2())
        raise VCUnknown(label, detail=self.solver.reason_unknown())


def mentions(f, consts):
    ids = {c.get_id() for c in consts}
    seen, stack = set(), [f]
    while stack:
        e = stack.pop()
        i = e.get_id()
        if i in ids:
            return True
        if i in seen:
            continue
        seen.add(i)
        if z3.is_quantifier(e):
            stack.append(e.body())
        else:
            stack.extend(e.children())
    return False


def has_quantifier(f, _seen=None):
    seen = set() if _seen is None else _seen
    stack = [f]
    while stack:
        e = stack.pop()
        if z3.is_quantifier(e):
            return True
        i = e.get_id()
        if i in seen:
            continue
        seen.add(i)
        stack.extend(e.children())
    return False


def fresh_check(assertions, timeout_ms):
    try:
        s0 = z3.Solver()
        s0.add(*assertions)
        s1 = z3.Solver()
        set_budget(s1, timeout_ms)
        s1.from_string(s0.to_smt2())
        return s1.check()
    except z3.Z3Exception:
        return z3.unknown


def _eqish(f):
    if z3.is_eq(f) or z3.is_implies(f):
        return True
    if z3.is_and(f):
        return all(_eqish(c) for c in f.children())
    return False


def fresh(ctx: Ctx, t: T, name):
    w = ctx.world
    if t.kind == "int":
        return z3.Int(ctx.fresh_name(name))
    if t.kind == "bool":
        return z3.Bool(ctx.fresh_name(name))
    if t.kind == "float":
        if t.kw.get("integral"):
            k = z3.Int(ctx.fresh_name(name + "_int"))
            return FloatV(z3.ToReal(k), k)
        return FloatV(z3.Real(ctx.fresh_name(name)))
    if t.kind == "label":
        return z3.Const(ctx.fresh_name(name), LabelSort)
    if t.kind == "none":
        return None
    if t.kind == "rec":
        ci = w.classes[t.args[0]]
        ov = t.kw.get("override", {})
        return Rec(ci, {f: fresh(ctx, ov.get(f, ft), f"{name}.{f}") for f, ft in ci.fields.items()})
    if t.kind == "tuple":
        return tuple(fresh(ctx, a, f"{name}.{i}") for i, a in enumerate(t.args))
    if t.kind == "list":
        return PyList([fresh(ctx, t.args[0], f"{name}[{i}]") for i in range(t.args[1])])
    if t.kind == "seq":
        return SeqV(z3.Const(ctx.fresh_name(name), w.sort_of(t)), t.args[0], t.kw.get("tuple", False))
    if t.kind == "set":
        return SetV(z3.Const(ctx.fresh_name(name), w.sort_of(t)), t.args[0])
    if t.kind == "union":
        from . import xmaps
        return xmaps.UnionV(z3.Const(ctx.fresh_name(name), w.sort_of(t)), t, w)
    if t.kind == "map" and t.kw.get("default") is not None:      # defaultdict(int) / Counter (xmaps.py)
        from . import xmaps
        return xmaps.fresh_dmap(ctx, t, name)
    if t.kind == "map":
        ks, vs = w.sort_of(t.args[0]), w.sort_of(t.args[1])
        return MapV(z3.Const(ctx.fresh_name(name + ".dom"), z3.ArraySort(ks, z3.BoolSort())),
                    z3.Const(ctx.fresh_name(name + ".val"), z3.ArraySort(ks, vs)), t.args[0], t.args[1])
    if t.kind == "const":
        return t.args[0]
    if t.kind == "build":
        return t.args[0](ctx, name)        # contract-supplied constructor of a structured symbolic value
    if t.kind == "ufunc":
        return UFunc(t.args[0], t.args[1] if len(t.args) > 1 else 1)
    if t.kind == "classref":
        return FuncRef("class", t.args[0], w.classes[t.args[0]])
    raise Unsupp(f"fresh value of type {t}")


def concretize(world, v, model):
    """symbolic value + model -> plain python data (ints, bools, lists, dict for records)"""
    if isinstance(v, (int, bool, str, float)) or v is None:
        return v
    if hasattr(v, "concretize_with"):
        return v.concretize_with(world, model)       # contract-defined structured value (additive): own model extraction
    if isinstance(v, FuncRef):
        return {"__classref__": v.name}
    if isinstance(v, UFunc):
        return {"__ufunc__": v.name}
    if isinstance(v, FloatV):
        r = model.eval(v.t, model_completion=True)
        try:
            return float(r.as_fraction())
        except Exception:  # pylint: disable=broad-except
            return float(r.approx(20).as_fraction())
    if isinstance(v, z3.ExprRef):
        r = model.eval(v, model_completion=True)
        if z3.is_int_value(r):
            return r.as_long()
        if z3.is_true(r):
            return True
        if z3.is_false(r):
            return False
        if r.sort() == LabelSort:
            return f"L{str(r).split('!')[-1]}"
        if z3.is_seq(r):
            return seq_model_to_list(world, r, model)
        if is_aseq(v):
            th = AQ.theory_of(v)
            n = model.eval(th.LEN(v), model_completion=True).as_long()
            return [model_term_to_py(world, model.eval(th.AT(v, z3.IntVal(k)), model_completion=True), model) for k in range(max(0, min(n, 12)))]
        if z3.is_app(r) and r.sort().kind() == z3.Z3_DATATYPE_SORT:
            return model_term_to_py(world, r, model)
        return str(r)
    if type(v).__name__ == "UnionV":
        return concretize(world, v.term, model)
    if isinstance(v, SetV):
        if v.term is None:
            return {"__set__": []}
        uni = model.get_universe(v.term.sort().domain()) or []
        return {"__set__": [model_term_to_py(world, u, model) for u in uni
                            if z3.is_true(model.eval(z3.Select(v.term, u), model_completion=True))]}
    if isinstance(v, MapV):
        uni = model.get_universe(v.dom.sort().domain()) or []
        if not uni and v.dom.sort().domain().kind() != z3.Z3_UNINTERPRETED_SORT:
            from . import xmaps
            uni = xmaps.array_true_keys(model, v.dom)       # interpreted key sorts have no finite universe: read the store chain
        return {"__map__": [[model_term_to_py(world, u, model),
                             model_term_to_py(world, model.eval(z3.Select(v.val, u), model_completion=True), model)] for u in uni
                            if z3.is_true(model.eval(z3.Select(v.dom, u), model_completion=True))]}
    if isinstance(v, Rec):
        return {"__class__": v.cls.name, **{k: concretize(world, x, model) for k, x in v.f.items()}}
    if isinstance(v, tuple):
        return tuple(concretize(world, x, model) for x in v)
    if isinstance(v, dict):
        return {k: concretize(world, x, model) for k, x in v.items()}
    if isinstance(v, PyList):
        return [concretize(world, x, model) for x in v.items]
    if isinstance(v, SeqV):
        return concretize(world, v.term, model)
    if isinstance(v, dict) and all(isinstance(k, (str, int)) for k in v):
        # python dict with concrete keys (e.g. the dict-valued fields of a record): same rendering as a finite map
        return {"__map__": [[k, concretize(world, x, model)] for k, x in v.items()]}
    if hasattr(v, "concretize_value"):        # contract-level value kinds (xmaps.ODictV ...) render themselves (additive)
        return v.concretize_value(world, model)
    return repr(v)


def seq_model_to_list(world, r, model):
    out = []

    def walk(e):
        if e.decl().kind() == z3.Z3_OP_SEQ_EMPTY:
            return
        if e.decl().kind() == z3.Z3_OP_SEQ_UNIT:
            out.append(model_term_to_py(world, e.arg(0), model))
            return
        if e.decl().kind() == z3.Z3_OP_SEQ_CONCAT:
            for c in e.children():
                walk(c)
            return
        raise Unsupp(f"cannot read sequence model {e}")
    walk(r)
    return out


def model_term_to_py(world, e, model):
    if z3.is_int_value(e):
        return e.as_long()
    if z3.is_true(e):
        return True
    if z3.is_false(e):
        return False
    if e.sort() == LabelSort:
        return f"L{str(e).split('!')[-1]}"
    if z3.is_seq(e):
        return seq_model_to_list(world, e, model)
    if z3.is_app(e) and e.sort().kind() == z3.Z3_DATATYPE_SORT:
        nm = e.decl().name()
        kids = [model_term_to_py(world, c, model) for c in e.children()]
        if nm.startswith("mk_") and nm[3:] in world.classes:
            ci = world.classes[nm[3:]]
            return {"__class__": ci.name, **dict(zip(ci.fields, kids))}
        if nm.startswith("in_") and nm[3:] in world.classes and len(kids) == 1:
            return kids[0]          # alternative of a tagged union (xmaps.py)
        return tuple(kids)
    return str(e)
