"""Additive value kinds for E1 (used through `case.interp_cls = XInterp` and `XWorld`; nothing in interp.py/engine.py changes):

  EnumV   symbolic member of a finite enumeration of python values (Pauli letters "I","X","Y","Z"; operator kinds), Int-coded
  OpV     an operator INSTANCE or CLASS abstracted to its kind (concrete name or EnumV)
  GaussV  Gaussian integer re + i*im (python complex constants with integral parts are their concrete form)
  DictV   python dict with symbolic contents: MapV (domain array, value array) + `order`, the duplicate-free key sequence
          (axiomatic sequence, aseq.py) that iteration / len() follow; `missing` is the value of `__missing__` (dict subclasses)
  KeysView  what `for k in d` / `d.items()` iterate over (needs a loop contract: symbolic length)

and the operations the Pauli code performs on them: indexing a concrete dict by a symbolic enumeration value (path split
over the keys), `in`, `del d[k]`, `d[k] = v`, `dict(d)`, `len(d)`, `set(d)`, iteration, complex arithmetic with concrete
Gaussian factors, `^` on bits, isinstance against module-level tuples of classes.
"""
from __future__ import annotations

import ast

import z3

from .engine import (World, T, Int, Label, LabelSort, MapV, SeqV, SetV, PyList, Rec, FuncRef, Unsupp, RaiseExc, is_sym_int,
                     is_intlike, to_int_term, FloatV)
from .interp import Interp


# ---------------------------------------------------------------------------------------------------------------- enumerations
class Enum:
    def __init__(self, name, values):
        self.name, self.values = name, list(values)
        self.code = {v: i for i, v in enumerate(self.values)}

    def T(self, wrap=None):
        return T("enum", self, wrap=wrap)

    def in_range(self, term, allowed=None):
        vals = self.values if allowed is None else allowed
        return z3.Or(*[term == self.code[v] for v in vals])


class EnumV:
    """symbolic member of an enumeration (Int-coded term)"""

    def __init__(self, term, spec):
        self.term, self.spec = term, spec

    def __repr__(self):
        return f"EnumV({self.spec.name}:{self.term})"


def enum_term(v, spec):
    if isinstance(v, EnumV):
        return v.term
    if v in spec.code:
        return z3.IntVal(spec.code[v])
    raise Unsupp(f"{v!r} is not a member of the enumeration {spec.name}")


class OpV:
    """operator instance (is_class False) or operator class (is_class True) abstracted to its kind"""

    def __init__(self, kind, is_class, spec):
        self.kind, self.is_class, self.spec = kind, is_class, spec

    def kind_is(self, name):
        if isinstance(self.kind, EnumV):
            if name not in self.spec.code:
                return False
            return self.kind.term == self.spec.code[name]
        return self.kind == name

    def __repr__(self):
        return f"OpV({'class' if self.is_class else 'instance'} {self.kind})"


class GaussV:
    """re + i*im with integer parts (python ints or z3 Int terms)"""

    def __init__(self, re, im):
        self.re, self.im = re, im

    def snapshot(self):
        return GaussV(self.re, self.im)

    def __repr__(self):
        return f"GaussV({self.re}, {self.im})"


def gparts(v):
    """(re, im) of a numeric value with Gaussian-integer meaning, or None"""
    if isinstance(v, GaussV):
        return v.re, v.im
    if isinstance(v, bool):
        return int(v), 0
    if isinstance(v, int) or is_sym_int(v):
        return v, 0
    if isinstance(v, float) and v == int(v):
        return int(v), 0
    if isinstance(v, FloatV):
        if v.i is not None:
            return v.i, 0
        s = z3.simplify(v.t)
        if z3.is_rational_value(s) and s.denominator_as_long() == 1:
            return s.numerator_as_long(), 0
        return None
    if isinstance(v, complex):
        if v.real == int(v.real) and v.imag == int(v.imag):
            return int(v.real), int(v.imag)
        return None
    return None


class DictV(MapV):
    def __init__(self, dom, val, key_t, val_t, order=None, cls="dict", missing=None):
        super().__init__(dom, val, key_t, val_t)
        self.order, self.cls, self.missing = order, cls, missing

    def snapshot(self):
        return DictV(self.dom, self.val, self.key_t, self.val_t, self.order, self.cls, self.missing)

    def __repr__(self):
        return f"DictV<{self.cls}>({self.dom}, {self.val})"


class KeysView(SeqV):
    """iteration over a DictV: the key sequence `order`; items=True yields (key, value) pairs"""

    def __init__(self, d: DictV, items):
        super().__init__(d.order, d.key_t, False)
        self.d, self.items = d, items


# ---------------------------------------------------------------------------------------------------------------- world
class XWorld(World):
    """World that also knows  T("enum", spec)  (Int-coded enumeration values) and  T("codec", c)  (contract-defined element types:
    c.sort, c.box(world, value) -> term, c.unbox(world, term) -> value)"""

    def sort_of(self, t):
        if t.kind == "enum":
            return z3.IntSort()
        if t.kind == "codec":
            return t.args[0].sort
        return super().sort_of(t)

    def box(self, v, t):
        if t.kind == "enum":
            if isinstance(v, OpV):
                v = v.kind
            return enum_term(v, t.args[0])
        if t.kind == "codec":
            return t.args[0].box(self, v)
        return super().box(v, t)

    def unbox(self, term, t):
        if t.kind == "enum":
            e = EnumV(term, t.args[0])
            wrap = t.kw.get("wrap")
            return wrap(e) if wrap else e
        if t.kind == "codec":
            return t.args[0].unbox(self, term)
        return super().unbox(term, t)


def fresh_dict(ctx, name, key_t, val_t, cls="dict", missing=None, ordered=True, val_ok=None):
    """fresh DictV with its representation facts assumed: `order` enumerates the key set without duplicates; every stored
    value satisfies val_ok(term)"""
    w = ctx.world
    ks, vs = w.sort_of(key_t), w.sort_of(val_t)
    dom = z3.Const(ctx.fresh_name(name + ".dom"), z3.ArraySort(ks, z3.BoolSort()))
    val = z3.Const(ctx.fresh_name(name + ".val"), z3.ArraySort(ks, vs))
    order = None
    x = z3.Const("dk_x", ks)
    if ordered:
        th = w.aseq(key_t)
        order = z3.Const(ctx.fresh_name(name + ".order"), th.sort)
        ctx.assume(th.NODUP(order))
        ctx.assume(z3.ForAll([x], th.MEM(order, x) == z3.Select(dom, x), patterns=[th.MEM(order, x), z3.Select(dom, x)]))
    if val_ok is not None:
        ctx.assume(z3.ForAll([x], z3.Implies(z3.Select(dom, x), val_ok(z3.Select(val, x))), patterns=[z3.Select(val, x)]))
    return DictV(dom, val, key_t, val_t, order, cls, missing)


# ---------------------------------------------------------------------------------------------------------------- interpreter
class XInterp(Interp):
    # ---- constants / unary
    def e_Constant(self, n, env):
        if isinstance(n.value, complex):
            return n.value
        return super().e_Constant(n, env)

    def neg(self, v):
        if isinstance(v, complex):
            return -v
        if isinstance(v, GaussV):
            return GaussV(-v.re, -v.im)
        return super().neg(v)

    def e_Dict(self, n, env):
        """dict literals keyed by concrete strings / ints / tuples of ints / in-scope classes (key 'cls:<name>')"""
        d = {}
        for k, v in zip(n.keys, n.values):
            if k is None:
                raise Unsupp("dict literal with ** expansion")
            d[self.dict_key(self.eval(k, env))] = self.eval(v, env)
        return d

    def dict_key(self, kk):
        if isinstance(kk, (str, int)) and not isinstance(kk, bool):
            return kk
        if isinstance(kk, FuncRef) and kk.kind == "class":
            return "cls:" + kk.name
        if isinstance(kk, OpV) and kk.is_class and isinstance(kk.kind, str):
            return "cls:" + kk.kind
        if isinstance(kk, tuple) and all(isinstance(x, int) and not isinstance(x, bool) for x in kk):
            return kk
        raise Unsupp("dict literal with symbolic key")

    # ---- equality / membership
    def equal(self, a, b):
        if isinstance(a, EnumV) or isinstance(b, EnumV):
            e, o = (a, b) if isinstance(a, EnumV) else (b, a)
            if isinstance(o, EnumV):
                return e.term == o.term if e.spec is o.spec else False
            try:
                hash(o)
            except TypeError:
                return False
            if o in e.spec.code:
                return e.term == e.spec.code[o]
            return False
        if isinstance(a, OpV) or isinstance(b, OpV):
            e, o = (a, b) if isinstance(a, OpV) else (b, a)
            if isinstance(o, OpV):
                if e.is_class != o.is_class:
                    return False
                if not e.is_class:
                    raise Unsupp("== between operator instances")
                if isinstance(o.kind, str):
                    return e.kind_is(o.kind)
                if isinstance(e.kind, str):
                    return o.kind_is(e.kind)
                return e.kind.term == o.kind.term
            if isinstance(o, FuncRef) and o.kind == "class":
                return e.kind_is(o.name) if e.is_class else False
            if not e.is_class:
                raise Unsupp("== on an operator instance")
            return False
        if isinstance(a, (GaussV, complex)) or isinstance(b, (GaussV, complex)):
            pa, pb = gparts(a), gparts(b)
            if pa is None or pb is None:
                if isinstance(a, complex) and isinstance(b, (complex, int, float)):
                    return a == b
                if isinstance(b, complex) and isinstance(a, (int, float)):
                    return a == b
                raise Unsupp(f"equality of {a!r} and {b!r}")
            return self.and_(self._eq_int(pa[0], pb[0]), self._eq_int(pa[1], pb[1]))
        return super().equal(a, b)

    @staticmethod
    def _eq_int(x, y):
        if isinstance(x, int) and isinstance(y, int):
            return x == y
        return to_int_term(x) == to_int_term(y)

    def contains(self, container, x):
        if isinstance(container, dict) and isinstance(x, (EnumV, OpV)):
            r = False
            for k in container:
                r = self.or_(r, self.key_matches(x, k))
            return r
        if isinstance(container, dict) and isinstance(x, tuple):
            r = False
            for k in container:
                r = self.or_(r, self.key_matches(x, k))
            return r
        return super().contains(container, x)

    def key_matches(self, idx, k):
        """condition under which the (possibly symbolic) index denotes the concrete dict key k"""
        if isinstance(idx, EnumV):
            return (idx.term == idx.spec.code[k]) if (isinstance(k, (str, int)) and k in idx.spec.code) else False
        if isinstance(idx, OpV):
            if not idx.is_class or not (isinstance(k, str) and k.startswith("cls:")):
                return False
            return idx.kind_is(k[4:])
        if isinstance(idx, FuncRef) and idx.kind == "class":
            return k == "cls:" + idx.name
        if isinstance(idx, tuple):
            if not (isinstance(k, tuple) and len(k) == len(idx)):
                return False
            r = True
            for x, y in zip(idx, k):
                r = self.and_(r, self.equal(x, y))
            return r
        return self.equal(idx, k)

    # ---- subscripts
    def index(self, obj, idx, node=None):
        if isinstance(obj, dict) and not (isinstance(idx, (str, int)) and not is_sym_int(idx)):
            if isinstance(idx, (EnumV, OpV, tuple)) or (isinstance(idx, FuncRef) and idx.kind == "class"):
                for k in list(obj):
                    c = self.key_matches(idx, k)
                    if isinstance(c, bool):
                        if c:
                            return obj[k]
                        continue
                    if self.ctx.branch(c):
                        return obj[k]
                raise RaiseExc("KeyError", node)
        if isinstance(obj, DictV):
            k = self.world.box(idx, obj.key_t)
            if self.ctx.branch(z3.Select(obj.dom, k)):
                return self.world.unbox(z3.Select(obj.val, k), obj.val_t)
            if obj.missing is not None:
                return obj.missing
            raise RaiseExc("KeyError", node)
        return super().index(obj, idx, node)

    def assign(self, t, v, env):
        if isinstance(t, ast.Subscript) and not isinstance(t.slice, ast.Slice):
            obj = self.eval(t.value, env)
            if isinstance(obj, DictV):
                k = self.world.box(self.eval(t.slice, env), obj.key_t)
                if obj.order is not None and not self._proved(z3.Select(obj.dom, k)):
                    obj.order = None          # a new key is appended to the iteration order: not tracked
                obj.dom = z3.Store(obj.dom, k, z3.BoolVal(True))
                obj.val = z3.Store(obj.val, k, self.box_val(v, obj.val_t))
                return
        return super().assign(t, v, env)

    def box_val(self, v, t):
        if t.kind == "build":           # contract-defined value representation: (boxer, unboxer) in kw
            return t.kw["box"](self, v)
        return self.world.box(v, t)

    def _proved(self, cond):
        """cond is entailed by the path condition (a failed attempt is NOT a refuted VC)"""
        if isinstance(cond, bool):
            return cond
        return self.ctx._check(z3.Not(cond)) == z3.unsat

    def s_Delete(self, s, env):
        for t in s.targets:
            if isinstance(t, ast.Subscript):
                obj = self.eval(t.value, env)
                if isinstance(obj, DictV):
                    k = self.world.box(self.eval(t.slice, env), obj.key_t)
                    if not self.ctx.branch(z3.Select(obj.dom, k)):
                        raise RaiseExc("KeyError", s)
                    obj.dom = z3.Store(obj.dom, k, z3.BoolVal(False))
                    obj.order = None
                    continue
                if isinstance(obj, PyList):
                    i = self.eval(t.slice, env)
                    if isinstance(i, int) and not isinstance(i, bool):          # del lst[i] with a concrete position
                        if not -len(obj.items) <= i < len(obj.items):
                            raise RaiseExc("IndexError", s)
                        del obj.items[i]
                        continue
            super().s_Delete(ast.Delete(targets=[t]), env)

    # ---- arithmetic
    def binop(self, op, a, b, node=None):
        if isinstance(a, (GaussV, complex)) or isinstance(b, (GaussV, complex)):
            pa, pb = gparts(a), gparts(b)
            if pa is None or pb is None:
                if isinstance(a, (complex, int, float)) and isinstance(b, (complex, int, float)):
                    import operator
                    f = {ast.Add: operator.add, ast.Sub: operator.sub, ast.Mult: operator.mul, ast.Div: operator.truediv}.get(type(op))
                    if f:
                        return f(a, b)
                raise Unsupp(f"complex arithmetic on {a!r}, {b!r}")
            conc = all(isinstance(x, int) for x in pa + pb)
            if isinstance(op, (ast.Add, ast.Sub)):
                sg = 1 if isinstance(op, ast.Add) else -1
                return self._gauss(pa[0] + sg * pb[0] if conc else to_int_term(pa[0]) + sg * to_int_term(pb[0]),
                                   pa[1] + sg * pb[1] if conc else to_int_term(pa[1]) + sg * to_int_term(pb[1]), conc)
            if isinstance(op, ast.Mult):
                if not (all(isinstance(x, int) for x in pa) or all(isinstance(x, int) for x in pb)):
                    raise Unsupp("product of two symbolic complex values (non-linear)")
                m = lambda x, y: x * y if (isinstance(x, int) and isinstance(y, int)) else to_int_term(x) * to_int_term(y)
                re = m(pa[0], pb[0]) - m(pa[1], pb[1])
                im = m(pa[0], pb[1]) + m(pa[1], pb[0])
                return self._gauss(re, im, conc)
            raise Unsupp(f"complex operation {type(op).__name__}")
        if isinstance(op, ast.BitXor) and is_intlike(a) and is_intlike(b) and not (isinstance(a, int) and isinstance(b, int)) \
                and not (isinstance(a, z3.BoolRef) and isinstance(b, z3.BoolRef)):
            ta, tb = to_int_term(a), to_int_term(b)
            if self._proved(z3.And(ta >= 0, ta <= 1, tb >= 0, tb <= 1)):
                return z3.If(ta == tb, z3.IntVal(0), z3.IntVal(1))
            raise Unsupp("^ on symbolic ints that are not known to be bits")
        return super().binop(op, a, b, node)

    @staticmethod
    def _gauss(re, im, conc):
        if conc:
            return complex(re, im) if im != 0 else re
        return GaussV(z3.simplify(to_int_term(re)), z3.simplify(to_int_term(im)))

    # ---- builtins on the new kinds
    def b_len(self, args, kw, node):
        (v,) = args
        if isinstance(v, DictV):
            if v.order is None:
                raise Unsupp("len of a dict whose key order is not tracked")
            return self.world.aseq(v.key_t).LEN(v.order)
        return super().b_len(args, kw, node)

    def b_dict(self, args, kw, node):
        if not args:
            return dict(kw)
        v = args[0]
        if isinstance(v, DictV):
            return DictV(v.dom, v.val, v.key_t, v.val_t, v.order, "dict", None)
        if isinstance(v, dict):
            return dict(v)
        raise Unsupp(f"dict() of {v!r}")

    def b_type(self, args, kw, node):
        v = args[0]
        if isinstance(v, OpV) and not v.is_class:
            return OpV(v.kind, True, v.spec)
        return super().b_type(args, kw, node)

    def to_set(self, v):
        if isinstance(v, DictV):
            return SetV(v.dom, v.key_t)
        return super().to_set(v)

    def truthy(self, v):
        if isinstance(v, DictV):
            return self.b_len([v], {}, None) > 0
        return super().truthy(v)

    def method_of_builtin(self, o, name, args, kw, node):
        if isinstance(o, str) and name in ("lower", "upper", "strip") and not args and not kw:
            return getattr(o, name)()               # concrete strings only
        if isinstance(o, DictV):
            if name in ("items", "keys"):
                if o.order is None:
                    raise Unsupp("iteration over a dict whose key order is not tracked")
                return KeysView(o, name == "items")
            if name == "copy":
                return DictV(o.dom, o.val, o.key_t, o.val_t, o.order, o.cls, o.missing)
        return super().method_of_builtin(o, name, args, kw, node)

    # ---- isinstance against module-level tuples of classes / the abstract kinds
    def type_names(self, texpr, env):
        if isinstance(texpr, ast.Name) and texpr.id not in env and isinstance(self.world.module_consts.get(texpr.id), ast.Tuple):
            return self.type_names(self.world.module_consts[texpr.id], env)
        return super().type_names(texpr, env)

    def isinstance_(self, v, texpr, env):
        if isinstance(v, OpV):
            if v.is_class:
                return False
            r = False
            for nm in self.type_names(texpr, env):
                r = self.or_(r, v.kind_is(nm))
            return r
        return super().isinstance_(v, texpr, env)

    def is_kind(self, v, nm):
        if isinstance(v, DictV):
            return nm == v.cls or nm == "dict"
        if isinstance(v, (EnumV, GaussV, complex)):
            return nm == "complex" if isinstance(v, (GaussV, complex)) else False
        return super().is_kind(v, nm)

    def type_of(self, v):
        if isinstance(v, EnumV):
            return v.spec.T()
        return super().type_of(v)

    # ---- loops over dicts
    def s_For(self, s, env):
        it = self.eval(s.iter, env)
        if isinstance(it, DictV):
            if it.order is None:
                raise Unsupp("iteration over a dict whose key order is not tracked")
            it = KeysView(it, False)
        node = ast.For(target=s.target, iter=ast.Name(id="__for_it__", ctx=ast.Load()), body=s.body, orelse=s.orelse)
        ast.copy_location(node, s)
        ast.copy_location(node.iter, s.iter)
        env["__for_it__"] = it
        try:
            return super().s_For(node, env)
        finally:
            env.pop("__for_it__", None)

    def sym_for(self, s, env, it, ordinal, ivar=None):
        if not isinstance(it, KeysView):
            return super().sym_for(s, env, it, ordinal, ivar)
        ls = self.loop_spec(ordinal)
        if ls is None:
            raise Unsupp(f"for loop over a dict of symbolic size at line {s.lineno} needs a loop contract")
        ivar = ivar or f"_i{ordinal}"
        th = self.world.aseq(it.d.key_t)
        ks, d = it.term, it.d
        dom0, val0 = d.dom, d.val          # the view iterates over the dict as it is at loop entry
        n = th.LEN(ks)
        env[ivar] = 0

        def pre(e):
            k = th.AT(ks, to_int_term(e[ivar]))
            if it.items:
                self.assign(s.target, (k, self.world.unbox(z3.Select(val0, k), d.val_t)), e)
            else:
                self.assign(s.target, k, e)

        def cond(e):
            return to_int_term(e[ivar]) < n

        def bound(e):
            return z3.And(to_int_term(e[ivar]) >= 0, to_int_term(e[ivar]) <= n)

        def post(e):
            e[ivar] = to_int_term(e[ivar]) + 1
        self.cut_loop(s, env, ls, ordinal, cond=cond, pre_body=pre, post_body=post, extra_inv=bound, extra_mod={ivar})

    def fresh_like(self, v, name):
        ctx = self.ctx
        if isinstance(v, DictV):
            # havoc IN PLACE: the loop mutates this very object (aliases -- a parameter, `self` -- see the same new contents)
            v.dom = z3.Const(ctx.fresh_name(name + ".dom"), v.dom.sort())
            v.val = z3.Const(ctx.fresh_name(name + ".val"), v.val.sort())
            v.order = None
            return v
        if isinstance(v, (GaussV, complex)):
            return GaussV(z3.Int(ctx.fresh_name(name + ".re")), z3.Int(ctx.fresh_name(name + ".im")))
        if isinstance(v, EnumV):
            t = z3.Int(ctx.fresh_name(name))
            ctx.assume(z3.And(t >= 0, t < len(v.spec.values)))
            return EnumV(t, v.spec)
        return super().fresh_like(v, name)


def gauss_type():
    """loop type for a variable that holds a Gaussian integer"""
    return T("build", lambda ctx, name: GaussV(z3.Int(ctx.fresh_name(name + ".re")), z3.Int(ctx.fresh_name(name + ".im"))),
             gen=lambda rng: complex(rng.randint(-2, 2), rng.randint(-2, 2)))


def with_standin(ob, fc, case, tries=2500, budget_s=40):
    """DESIGN 2.6: when the proof of an E1 obligation is lost (extraction refused, invariant no longer binds, solver unknown)
    the function's bounded stand-in runs -- the executable contract on the REAL function over generated inputs.  A failing input
    is a violation (replayed); none within the budget leaves the obligation UNDECIDED with `standin: passed` (exit 0, evidence
    downgraded to level `other`, obligation listed under proof_lost).  Proved / refuted outcomes pass through unchanged."""
    from ..common import Outcome, REFUTED, UNDECIDED
    from .contract import search_counterexample
    from . import spec as S
    inner = ob.fn

    def fn():
        out = inner()
        if out.status != UNDECIDED:
            return out
        try:
            found = search_counterexample(fc, case, seed=1, tries=tries, budget_s=budget_s)
        except Exception as ex:  # pylint: disable=broad-except
            out.extra = dict(out.extra or {}, standin="unavailable", standin_error=f"{type(ex).__name__}: {ex}")
            return out
        if found:
            rp, model = found
            return Outcome(REFUTED, "pyvc(undecided)+bounded-standin", f"proof lost ({out.detail[:200]}); the real function violates the executable "
                           "contract on a generated input", witness=dict(inputs=S.show(model)), replay=rp, extra=dict(out.extra or {}, model=model))
        probe = _standin_runs(fc, case)
        out.extra = dict(out.extra or {}, standin="passed" if probe else "unavailable", standin_points=probe)
        return out
    ob.fn = fn
    return ob


def _standin_runs(fc, case, n=40):
    """number of generated inputs on which the executable contract could actually be evaluated (0 => the stand-in is not available)"""
    import random
    from .contract import gen_value, replay_case
    rng = random.Random(5)
    ok = 0
    for _ in range(n):
        try:
            m = {p: gen_value(fc.world, t, rng) for p, t in case.params.items()}
            if case.native_gen is not None:
                m = dict(case.native_gen(rng, m), __generated__=True)
            rp = replay_case(fc, case, m)
            if rp.get("confirmed") is False and "precondition" not in str(rp.get("note", "")):
                ok += 1
        except Exception:  # pylint: disable=broad-except
            pass
    return ok
