"""Sidecar contracts for E1 and their verification / replay.

A contract is attached to (repo file, qualname) and consists of cases (one per argument-type configuration); each case
has `requires`, `ensures`, allowed exceptions, loop invariants.  Contract predicates are plain python lambdas written with
the polymorphic helpers of spec.py, so the same predicate is a z3 formula on symbolic values and a bool on real objects
(used by the replay on the real code).
"""
from __future__ import annotations

import ast
import importlib
import time
import traceback

import z3

from ..common import Obligation, Outcome, DISCHARGED, REFUTED, UNDECIDED, FAULT, find_def, find_property_setter
from .engine import (set_budget, Ctx, World, T, Rec, PyList, SeqV, FloatV, Unsupp, PathEnd, VCFailed, VCUnknown, RaiseExc, ReturnExc, fresh,
                     concretize)
from .interp import Interp, NS
from . import spec as S


class LoopSpec:
    def __init__(self, inv, types=None, decreases=None, axioms=None):
        self.inv, self.types, self.decreases = inv, types or {}, decreases
        self.axioms = axioms        # v -> list of z3 facts: INSTANCES of the definitional axioms of spec functions


class Case:
    def __init__(self, label, params, requires=None, ensures=None, raises=None, loops=None, exact_integer=False,
                 must_return=None, result_name="result", ghost=None, max_paths=400, axioms=None, yields=None,
                 native_gen=None, native_call=None, size_bounded=False, kwargs_map=None, native_raw=False, exc_ensures=None):
        self.label, self.params = label, params
        self.requires, self.ensures = requires, ensures
        self.raises = raises or {}
        self.loops = loops or {}
        self.exact_integer = exact_integer
        self.must_return = must_return
        self.ghost = ghost
        self.max_paths = max_paths
        self.axioms = axioms        # (old, result, new) -> list of z3 facts (instances of spec-function axioms)
        self.yields = yields        # element type of the yielded values when the function is a generator
        self.native_gen = native_gen
        self.native_call = native_call
        self.size_bounded = size_bounded
        if exc_ensures is not None:
            self.exc_ensures = exc_ensures      # (exception name, old, new) -> condition that must hold when that exception escapes
        self.native_raw = native_raw            # native_call builds its own real inputs from the plain model data (no realize step)
        self.kwargs_map = kwargs_map or {}      # keyword name -> case parameter passed under that keyword (**kwargs of the function)


class FnContract:
    def __init__(self, world: World, qualname, cases, kind="auto", setter=False):
        self.world, self.qualname, self.cases, self.setter = world, qualname, cases, setter

    def node(self):
        if self.setter:
            cls, name = self.qualname.split(".")[:2]
            return find_property_setter(self.world.file, cls, name)[1]
        return find_def(self.world.file, self.qualname.replace(".setter", ""))[1]


def module_name(file):
    return file[:-3].replace("/", ".")


def realize(world, data, mod):
    """concretized counter-model data -> real python objects of the module under test"""
    if isinstance(data, dict) and "__classref__" in data:
        return getattr(mod, data["__classref__"])
    if isinstance(data, dict) and "__set__" in data:
        return set(realize(world, x, mod) for x in data["__set__"])
    if isinstance(data, dict) and "__map__" in data:
        return {realize(world, k, mod): realize(world, v, mod) for k, v in data["__map__"]}
    if isinstance(data, dict) and "__class__" in data and data["__class__"] in getattr(world, "stub_realize", {}):
        fields = {k: realize(world, v, mod) for k, v in data.items() if k != "__class__"}
        return world.stub_realize[data["__class__"]](fields)
    if isinstance(data, dict) and "__class__" in data:
        cls = getattr(mod, data["__class__"])
        fields = {k: realize(world, v, mod) for k, v in data.items() if k != "__class__"}
        ci = world.classes.get(data["__class__"])
        if ci is not None:
            for k, t in ci.fields.items():     # sequences declared as tuples come back as tuples
                if t.kind == "seq" and isinstance(fields.get(k), list) and t.kw.get("tuple", True):
                    fields[k] = tuple(fields[k])
        if issubclass(cls, tuple):
            return cls(**fields)
        obj = object.__new__(cls)
        for k, v in fields.items():
            object.__setattr__(obj, k, v)
        return obj
    if callable(data):
        return data
    if isinstance(data, list):
        return [realize(world, x, mod) for x in data]
    if isinstance(data, tuple):
        return tuple(realize(world, x, mod) for x in data)
    return data


def verify_case(fc: FnContract, case: Case, timeout_ms=10000, budget_s=240):
    """explore all paths of the real function under the case's precondition; returns dict with verdict"""
    world = fc.world
    fn = fc.node()
    t0 = time.time()
    work = [[]]
    stats = dict(paths=0, vcs=0, infeasible=0, solver_s=0.0, raising_paths=0, returning_paths=0, float_ops=0)
    vc_labels = []
    while work:
        if time.time() - t0 > budget_s:
            return dict(status=UNDECIDED, detail=f"path exploration budget {budget_s}s exhausted after {stats['paths']} paths", stats=stats)
        if stats["paths"] >= case.max_paths:
            return dict(status=UNDECIDED, detail=f"more than {case.max_paths} paths", stats=stats)
        prefix = work.pop()
        ctx = Ctx(world, prefix, timeout_ms)
        it = (getattr(case, "interp_cls", None) or Interp)(ctx, case)     # a contract may supply an Interp subclass (additive value kinds)
        it.top_fn = fn
        it.in_top = True
        args = {p: fresh(ctx, t, p) for p, t in case.params.items()}
        from .engine import snap
        old = {k: snap(v) for k, v in args.items()}
        it.old_args = old
        case.interp = it            # contracts that must APPLY a returned callable (closures, partials) do so through the interpreter
        stats["paths"] += 1
        try:
            try:
                for p, t in case.params.items():
                    inv = t.kw.get("where")
                    if inv is not None:
                        ctx.assume(S.to_z3(inv(args[p])))
                if case.ghost:
                    case.ghost(ctx, NS(args))       # ghost state first: the precondition may speak about it
                if case.requires is not None:
                    ctx.assume(S.to_z3(case.requires(NS(args))))
                if stats["paths"] == 1 or ctx.qf_solver is None:
                    # vacuity guard (with quantified theory axioms a model is rarely produced: short budget, first path only --
                    # an inconsistent precondition is refuted quickly or not at all)
                    if ctx.qf_solver is not None:
                        set_budget(ctx.solver, 2500)
                    vac = ctx._check()
                    set_budget(ctx.solver, timeout_ms)
                    if vac == z3.unsat:
                        return dict(status=FAULT, detail="precondition is unsatisfiable (vacuous contract)", stats=stats)
                outcome, value = "return", None
                try:
                    km = case.kwargs_map
                    env = it.bind(fn, [args[p] for p in case.params if p not in km.values()], {k: args[v] for k, v in km.items()})
                    if case.yields is not None:
                        from .engine import SeqV as _SeqV
                        env["yielded"] = _SeqV(z3.Empty(z3.SeqSort(world.sort_of(case.yields))), case.yields)
                    it.exec_block(fn.body, env)
                    if case.yields is not None:
                        value = env["yielded"]
                except ReturnExc as r:
                    value = r.value if case.yields is None else env["yielded"]
                except RaiseExc as r:
                    outcome, value = "raise", r.name
                ns_old, ns_new = NS(old), NS(args)
                if outcome == "return":
                    stats["returning_paths"] += 1
                    if case.ensures is not None:
                        if case.axioms is not None:
                            import inspect as _insp
                            extra = [NS({k: v for k, v in env.items() if not k.startswith("__")}, ghost=NS(ctx.ghost))] \
                                if len(_insp.signature(case.axioms).parameters) >= 4 else []
                            for ax in case.axioms(ns_old, value, ns_new, *extra):
                                ctx.assume(ax)
                        goal = case.ensures(ns_old, value, ns_new)
                        ctx.prove(S.to_z3(goal), "post")
                    if case.exact_integer and ctx.float_ops:
                        # float-producing operations on integer operands inside exact-integer code: exact only while the
                        # operands (and hence the result) are representable in binary64 -- an obligation, not an assumption
                        from .engine import is_intlike, to_int_term
                        stats["float_ops"] += len(ctx.float_ops)
                        lim = 2 ** 53
                        for (line, opname, a, b) in ctx.float_ops:
                            for x in (a, b):
                                if x is not None and is_intlike(x) and not isinstance(x, (int, bool)):
                                    t = to_int_term(x)
                                    ctx.prove(z3.And(t <= lim, t >= -lim), f"float-exact:{opname}@line{line}")
                else:
                    stats["raising_paths"] += 1
                    allowed = case.raises.get(value)
                    if allowed is None:
                        ctx.prove(False, f"no-exception:{value}")
                    else:
                        ctx.prove(S.to_z3(allowed(ns_old)), f"raises:{value}")
                    if case.must_return is not None:
                        ctx.prove(S.to_z3(S.Not(case.must_return(ns_old))), f"must-return-but-raised:{value}")
                    if getattr(case, "exc_ensures", None) is not None:
                        # exceptional postcondition (additive): state guaranteed when the function leaves by exception `value`
                        ctx.prove(S.to_z3(case.exc_ensures(value, ns_old, ns_new)), f"exc-post:{value}")
                if not stats.get("live"):
                    # cover check: at least one completed path must not be refutably infeasible (else every VC was vacuous)
                    set_budget(ctx.solver, 1500)
                    if ctx._check() != z3.unsat:
                        stats["live"] = 1
                    set_budget(ctx.solver, timeout_ms)
            except PathEnd:
                stats["infeasible"] += 1
        except VCFailed as f:
            stats["vcs"] += ctx.n_vcs
            cm = {p: concretize(world, old[p], f.model) for p in case.params}
            return dict(status=REFUTED, label=f.label, model=cm, detail=f.detail, stats=stats, decisions=ctx.decisions,
                        havocked=ctx.havocked or bool(world.extra_builtins))
        except VCUnknown as u:
            stats["vcs"] += ctx.n_vcs
            return dict(status=UNDECIDED, detail=f"solver unknown at {u.label}: {u.detail}", stats=stats)
        except Unsupp as u:
            return dict(status=UNDECIDED, detail=f"extractor refused: {u}", stats=stats, unsupported=True)
        stats["vcs"] += ctx.n_vcs
        stats["solver_s"] += ctx.solver_time
        vc_labels += [l for l, _ in ctx.vc_log]
        work.extend(ctx.forks)
    if stats["vcs"] == 0:
        return dict(status=FAULT, detail="no verification condition generated", stats=stats)
    if not stats.get("live"):
        return dict(status=FAULT, detail="every explored path is infeasible: all verification conditions were vacuous", stats=stats)
    return dict(status=DISCHARGED, stats=stats, labels=vc_labels)


def replay_case(fc: FnContract, case: Case, model):
    """run the REAL function on the counter-model and evaluate the executable contract"""
    world = fc.world
    if case.native_gen is not None and not model.get("__generated__"):
        # spec functions are uninterpreted in the VCs, so a model may violate their real meaning (e.g. a cached total that is
        # not the sum): the case's repair hook re-derives such fields from the primary data before the native run
        model = case.native_gen(None, model)
    mod = importlib.import_module(module_name(world.file))
    import copy
    args = dict(model) if case.native_raw else {p: realize(world, model[p], mod) for p in case.params}
    try:
        memo = {}
        old = copy.deepcopy(args, memo)
        # identity across the call: a copy in `old` remembers which live object it was copied from (spec.same_object)
        for orig in list(memo.get(id(memo), [])):
            cp = memo.get(id(orig))
            if cp is not None and cp is not orig and hasattr(cp, "__dict__"):
                try:
                    object.__setattr__(cp, "_vf_origin", orig)
                except Exception:  # pylint: disable=broad-except
                    pass
    except Exception:  # pylint: disable=broad-except
        old = dict(args)
    parts = fc.qualname.split(".")
    f = None
    try:
        if case.native_call is not None:
            pass
        elif fc.setter:
            cls = getattr(mod, parts[0])
            f = getattr(cls, parts[1]).fset
        else:
            f = mod
            for p in parts:
                f = getattr(f, p)
        if isinstance(f, property):
            f = f.fget
    except AttributeError as ex:
        if case.native_call is None:
            return dict(confirmed=None, note=f"cannot locate real function: {ex}")
        f = None        # closures (`f.<locals>.g`) are not module attributes: the case's native_call builds and invokes the real one
    ns_old = NS(old)
    try:
        if case.requires is not None and not S.truth(case.requires(NS(args))):
            return dict(confirmed=False, note="counter-model violates the precondition when evaluated natively")
    except Exception as ex:  # pylint: disable=broad-except
        return dict(confirmed=None, note=f"executable precondition failed to evaluate: {type(ex).__name__}: {ex}", inputs=S.show(old))
    try:
        if case.native_call is not None:
            result = case.native_call(mod, args)
        else:
            result = f(*[args[p] for p in case.params if case.params[p].kind != "classref"])
        if case.yields is not None:
            result = list(result)
    except Exception as ex:  # pylint: disable=broad-except
        name = type(ex).__name__
        allowed = case.raises.get(name)
        ok = allowed is not None and S.truth(allowed(ns_old))
        if ok and case.must_return is not None and S.truth(case.must_return(ns_old)):
            ok = False
        if ok and getattr(case, "exc_ensures", None) is not None:
            try:
                ok = S.truth(case.exc_ensures(name, ns_old, NS(args)))
            except Exception as ex2:  # pylint: disable=broad-except
                return dict(confirmed=None, note=f"exceptional postcondition failed to evaluate: {type(ex2).__name__}: {ex2}",
                            inputs=S.show(old))
        return dict(confirmed=not ok, observed=f"raised {name}: {ex}", expected="allowed exceptions: " + ", ".join(case.raises) or "none",
                    inputs=S.show(old))
    try:
        ok = True if case.ensures is None else S.truth(case.ensures(ns_old, result, NS(args)))
    except Exception as ex:  # pylint: disable=broad-except
        return dict(confirmed=None, note=f"executable contract failed to evaluate: {type(ex).__name__}: {ex}", inputs=S.show(old),
                    observed=S.show(result))
    return dict(confirmed=not ok, observed=S.show(result), inputs=S.show(old),
                expected="postcondition of the contract (see obligation name)")


def gen_value(world, t, rng, depth=0):
    """random concrete data of a type descriptor (same shape as concretized models)"""
    k = t.kind
    if k == "int":
        r = rng.random()
        if r < 0.75:
            return rng.randint(-2, 6)
        if r < 0.95:
            return rng.randint(-40, 60)
        return rng.choice([2 ** 53 + 1, -(2 ** 40), 10 ** 9 + 7]) if rng.random() < 0.3 else rng.randint(-300, 300)
    if k == "bool":
        return rng.random() < 0.5
    if k == "float":
        if t.kw.get("integral"):
            return float(rng.randint(-5, 9))
        return rng.choice([rng.randint(-5, 9) + 0.5, rng.uniform(-3, 3), float(rng.randint(-5, 9))])
    if k == "label":
        if rng.random() < 0.12:
            return rng.choice([-1, -2])      # CPython: hash(-1) == hash(-2): distinct labels (and tuples of them) with equal hashes
        return rng.choice(["L0", "L1", "L2", "L3", "L4", "L5"])
    if k == "none":
        return None
    if k == "const":
        return t.args[0]
    if k == "build":
        return t.kw["gen"](rng)
    if k == "classref":
        return {"__classref__": t.args[0]}
    if k == "ufunc":
        return {"__ufunc__": t.args[0]}
    if k == "rec":
        ci = world.classes[t.args[0]]
        ov = t.kw.get("override", {})
        return {"__class__": ci.name, **{f: gen_value(world, ov.get(f, ft), rng, depth + 1) for f, ft in ci.fields.items()}}
    if k == "tuple":
        return tuple(gen_value(world, a, rng, depth + 1) for a in t.args)
    if k == "list":
        return [gen_value(world, t.args[0], rng, depth + 1) for _ in range(t.args[1])]
    if k == "set":
        return {"__set__": sorted({gen_value(world, t.args[0], rng, depth + 1) for _ in range(rng.choice([0, 1, 2, 3, 4]))}, key=str)}
    if k == "map":
        return {"__map__": [[kk, gen_value(world, t.args[1], rng, depth + 1)]
                            for kk in sorted({gen_value(world, t.args[0], rng, depth + 1) for _ in range(rng.choice([0, 1, 2, 3, 5]))}, key=str)]}
    if k == "seq":
        n = rng.choice([0, 1, 1, 2, 2, 3, 3, 4, 5])
        return [gen_value(world, t.args[0], rng, depth + 1) for _ in range(n)]
    raise Unsupp(f"no generator for {t}")


def search_counterexample(fc, case, seed=0, tries=3000, budget_s=20):
    """bounded native search with the executable contract (used when a VC on a havocked path fails and the solver's
    model is not a reachable input): returns (replay-dict, model) of a confirmed violation or None"""
    import random
    import signal

    class _TryTimeout(BaseException):
        pass

    def _on_vtalrm(signum, frame):
        raise _TryTimeout()
    rng = random.Random(seed)
    # warm-up OUTSIDE the per-try CPU limit: the first native call imports the real package (several CPU seconds); an import
    # interrupted by the per-try timer leaves half-initialised modules behind and every later try fails (seen with seed C19_1)
    try:
        import importlib
        importlib.import_module("pennylane")
        for extra in ("networkx", "scipy.optimize", "scipy.linalg", "scipy.sparse", "autograd"):
            try:
                importlib.import_module(extra)
            except Exception:  # pylint: disable=broad-except
                pass
    except Exception:  # pylint: disable=broad-except
        pass
    t0 = time.time()
    # one generated input must not eat the whole budget (a huge loop bound makes the REAL function run "forever"): per-try CPU limit
    try:
        old_handler = signal.signal(signal.SIGVTALRM, _on_vtalrm)
    except ValueError:
        old_handler = None
    result = None
    try:
        for _ in range(tries):
            if time.time() - t0 > budget_s:
                break
            rp = m = None
            try:
                try:
                    if old_handler is not None:
                        signal.setitimer(signal.ITIMER_VIRTUAL, 3.0)
                    m = {p: gen_value(fc.world, t, rng) for p, t in case.params.items()}
                    if case.native_gen is not None:
                        m = dict(case.native_gen(rng, m), __generated__=True)
                    rp = replay_case(fc, case, m)
                finally:
                    if old_handler is not None:
                        signal.setitimer(signal.ITIMER_VIRTUAL, 0)
            except _TryTimeout:
                continue            # (may also arrive while the timer is being disarmed)
            except Exception:  # pylint: disable=broad-except
                continue
            if rp and rp.get("confirmed"):
                rp["found_by"] = "bounded native search with the executable contract"
                result = (rp, m)
                break
    except _TryTimeout:
        pass
    finally:
        try:
            if old_handler is not None:
                signal.setitimer(signal.ITIMER_VIRTUAL, 0)
                signal.signal(signal.SIGVTALRM, old_handler)
        except _TryTimeout:
            pass
    return result


    return None


def scale_ints(data, k):
    if isinstance(data, bool):
        return data
    if isinstance(data, int):
        return data * k
    if isinstance(data, dict):
        return {a: (b if a == "__class__" else scale_ints(b, k)) for a, b in data.items()}
    if isinstance(data, (list, tuple)):
        return type(data)(scale_ints(x, k) for x in data)
    return data


def replay_float_exact(fc, case, model):
    """a float-exactness VC failed: the solver's model only shows an operand beyond 2^53; look for an input on which the
    REAL function actually violates its contract by scaling the model's integers past the binary64 mantissa"""
    for k in (1, 2 ** 53 + 1, 2 ** 60 + 3, 3 ** 40, 10 ** 17 + 3):
        m = scale_ints(model, k)
        rp = replay_case(fc, case, m)
        if rp.get("confirmed"):
            rp["scaled_by"] = k
            return rp, m
    return dict(confirmed=None, note="operands beyond 2^53 are possible but no input with a wrong result was found by scaling"), model


def obligations_for(pid, fc: FnContract, tier="quick", finding=None, timeout=None):
    out = []
    short = fc.world.file.split("/")[-1][:-3]
    for case in fc.cases:
        name = f"{pid}/{short}:{fc.qualname}/{case.label}"

        def fn(fc=fc, case=case):
            to = 10000 if tier == "quick" else 60000
            r = verify_case(fc, case, timeout_ms=to, budget_s=200 if tier == "quick" else 900)
            if r["status"] == UNDECIDED and not r.get("unsupported"):
                # solver budget: one retry with a different seed and a 3x budget, so that verdicts do not flip under load
                z3.set_param("smt.random_seed", 7)
                r = verify_case(fc, case, timeout_ms=3 * to, budget_s=400 if tier == "quick" else 1800)
                z3.set_param("smt.random_seed", 0)
            st = r.get("stats", {})
            extra = dict(paths=st.get("paths"), sub_obligations=st.get("vcs", 0), solver_s=round(st.get("solver_s", 0), 3),
                         returning_paths=st.get("returning_paths"), raising_paths=st.get("raising_paths"))
            if r["status"] == DISCHARGED:
                return Outcome(DISCHARGED, "z3", f"{st['vcs']} VCs over {st['paths']} paths", extra=extra)
            if r["status"] == REFUTED:
                try:
                    if str(r.get("label", "")).startswith("float-exact"):
                        rp, r["model"] = replay_float_exact(fc, case, r["model"])
                    else:
                        rp = replay_case(fc, case, r["model"])
                        if not rp.get("confirmed") and r.get("havocked"):
                            # the failed VC sits behind a loop cut / assumed callee contract: the model's state need not be
                            # reachable.  The obligation is refuted all the same; look for a real failing input natively.
                            found = search_counterexample(fc, case)
                            if found:
                                rp, r["model"] = found
                            else:
                                rp = dict(confirmed=None, note="VC refuted on a path through a loop invariant / callee contract; the "
                                          "solver's state is not a reachable input and the bounded native search found none",
                                          solver_state=S.show(r["model"]))
                except Exception:  # pylint: disable=broad-except
                    rp = dict(confirmed=None, note="replay crashed: " + traceback.format_exc()[-800:])
                return Outcome(REFUTED, "z3", f"VC {r['label']} refuted: {r.get('detail', '')}", witness=dict(inputs=S.show(r["model"]), vc=r["label"]),
                               replay=rp, extra=dict(extra, model=r["model"]))
            if r["status"] == FAULT:
                return Outcome(FAULT, "pyvc", r["detail"], extra=extra)
            # the solver gave no verdict (quantified VCs rarely yield models), or an edit took the function out of the extractor's
            # subset: an undischarged obligation is not a violation, but a failing input of the REAL function against the
            # executable contract is -- bounded native search (DESIGN 2.6: the bounded stand-in of a function that left reach)
            searched = False
            try:
                found = search_counterexample(fc, case, budget_s=30)
                searched = True
            except Exception:  # pylint: disable=broad-except
                found = None
            if found:
                rp, model = found
                return Outcome(REFUTED, "native-search", f"obligation not discharged ({r['detail']}); the real function "
                               "violates the executable contract on a generated input", witness=dict(inputs=S.show(model)),
                               replay=rp, extra=dict(extra, model=model))
            if r.get("unsupported") and searched:
                extra = dict(extra, standin="passed", standin_bound="bounded native search with the executable contract, 30 s / 3000 inputs")
            return Outcome(UNDECIDED, "pyvc", r["detail"], extra=extra)

        def replay(witness, fc=fc, case=case):
            r = verify_case(fc, case)
            if r["status"] != REFUTED:
                return dict(confirmed=False, note=f"obligation now {r['status']}")
            if str(r.get("label", "")).startswith("float-exact"):
                return replay_float_exact(fc, case, r["model"])[0]
            return replay_case(fc, case, r["model"])

        src_q = fc.qualname
        out.append(Obligation(name, "post", fn, func=(fc.world.file, src_q.replace(".setter", "")), finding=finding if not isinstance(finding, dict) else finding.get(case.label),
                              replay=replay, timeout=timeout or (300 if tier == "quick" else 1200), size_bounded=case.size_bounded,
                              sample=f"all paths of {fc.qualname} [{case.label}]: pre => post / allowed exceptions / loop invariants"))
    return out


def lemma(pid, name, vars_, goal, *, assumptions=(), timeout_ms=20000, sample=None):
    """a lemma over contracts/spec functions: forall vars. assumptions => goal (z3; cvc5 on unknown)"""

    def fn():
        from .engine import fresh_check
        z3.set_param("smt.mbqi", True)
        z3.set_param("smt.random_seed", 0)
        s = z3.Solver()
        set_budget(s, timeout_ms)
        for a in assumptions:
            s.add(a)
        s.add(z3.Not(goal))
        t = time.time()
        r = s.check()
        if r == z3.unknown:
            # z3's sequence/NIA procedures are sensitive to term structure and seeds: re-parse, then vary the seed
            for seed in (0, 1, 2, 3):
                z3.set_param("smt.random_seed", seed)
                r = fresh_check(list(assumptions) + [z3.Not(goal)], timeout_ms)
                if r != z3.unknown:
                    break
            z3.set_param("smt.random_seed", 0)
            if r == z3.sat:
                r = z3.unknown      # a model from the re-parsed problem is not extracted; fall through to cvc5/undecided
        if r == z3.unsat:
            return Outcome(DISCHARGED, "z3", f"{time.time() - t:.2f}s")
        if r == z3.sat:
            m = s.model()
            return Outcome(REFUTED, "z3", "lemma refuted", witness={str(v): str(m.eval(v, model_completion=True)) for v in vars_},
                           replay=dict(confirmed=None, note="lemma over specification functions: no code input to replay"))
        r2 = cvc5_check(s)
        if r2 == "unsat":
            return Outcome(DISCHARGED, "cvc5", f"z3 unknown; cvc5 unsat in {time.time() - t:.2f}s")
        return Outcome(UNDECIDED, "z3+cvc5", f"z3: {s.reason_unknown()}; cvc5: {r2}")
    return Obligation(f"{pid}/lemma:{name}", "lemma", fn, sample=sample or name, timeout=max(60, 3 * timeout_ms // 1000))


def cvc5_check(solver, timeout_s=30):
    import subprocess
    import tempfile
    smt = "(set-logic ALL)\n" + solver.to_smt2()
    with tempfile.NamedTemporaryFile("w", suffix=".smt2", delete=True) as f:
        f.write(smt)
        f.flush()
        try:
            p = subprocess.run(["/usr/bin/cvc5", "--tlimit", str(timeout_s * 1000), "--strings-exp", f.name], capture_output=True, text=True,
                               timeout=timeout_s + 5)
            return p.stdout.strip().split("\n")[0] if p.stdout.strip() else "error:" + p.stderr[:100]
        except Exception as ex:  # pylint: disable=broad-except
            return f"error:{ex}"
