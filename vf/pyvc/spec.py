"""Polymorphic specification helpers: the same contract predicate is a z3 formula over symbolic values and a plain bool
over the real python objects (replay)."""
from __future__ import annotations

import z3

from .engine import Rec, PyList, SeqV, FloatV, to_int_term, is_sym_bool, is_sym_int


def _sym(*xs):
    return any(isinstance(x, z3.ExprRef) for x in xs)


def to_z3(b):
    if isinstance(b, bool):
        return b
    if isinstance(b, z3.BoolRef):
        return b
    raise TypeError(f"contract predicate evaluated to {type(b).__name__}, expected a boolean")


def truth(b):
    if isinstance(b, z3.ExprRef):
        s = z3.simplify(b)
        if z3.is_true(s):
            return True
        if z3.is_false(s):
            return False
        raise TypeError("symbolic truth value in native evaluation")
    return bool(b)


def And(*xs):
    xs = [x for x in xs]
    if _sym(*xs):
        return z3.And(*[z3.BoolVal(x) if isinstance(x, bool) else x for x in xs])
    return all(xs)


def Or(*xs):
    if _sym(*xs):
        return z3.Or(*[z3.BoolVal(x) if isinstance(x, bool) else x for x in xs])
    return any(xs)


def Not(x):
    return z3.Not(x) if isinstance(x, z3.ExprRef) else (not x)


def Implies(a, b):
    if _sym(a, b):
        return z3.Implies(z3.BoolVal(a) if isinstance(a, bool) else a, z3.BoolVal(b) if isinstance(b, bool) else b)
    return (not a) or b


def If(c, a, b):
    if isinstance(c, z3.ExprRef):
        return z3.If(c, _t(a), _t(b))
    return a if c else b


def _t(x):
    if isinstance(x, bool):
        return z3.BoolVal(x)
    if isinstance(x, int):
        return z3.IntVal(x)
    return x


def is_none(x):
    return x is None


def fdiv(a, b):
    """python floor division"""
    if _sym(a, b):
        from .engine import py_floordiv
        return py_floordiv(a, b)
    return a // b


def mod(a, b):
    if _sym(a, b):
        from .engine import py_mod
        return py_mod(a, b)
    return a % b


def absv(a):
    if isinstance(a, z3.ExprRef):
        return z3.If(a >= 0, a, -a)
    return abs(a)


def show(x, depth=0):
    """JSON-able rendering of real objects / concretized models"""
    if depth > 6:
        return "..."
    if isinstance(x, (int, float, str, bool)) or x is None:
        return x
    if isinstance(x, dict):
        return {str(k): show(v, depth + 1) for k, v in x.items()}
    if isinstance(x, (list, tuple)):
        return [show(v, depth + 1) for v in x]
    if hasattr(x, "__dict__") and not callable(x):
        return {"__class__": type(x).__name__, **{k: show(v, depth + 1) for k, v in vars(x).items() if not k.startswith("__")}}
    return repr(x)


# ---- sequences --------------------------------------------------------------------------------------------------------
def length(s):
    if isinstance(s, SeqV):
        return z3.Length(s.term)
    if isinstance(s, PyList):
        return len(s.items)
    if isinstance(s, z3.SeqRef):
        return z3.Length(s)
    return len(s)


def seqterm(world, v, elem):
    """z3 Seq term of a list/tuple value (PyList / tuple / SeqV) with element type `elem`"""
    from .engine import SeqT
    if isinstance(v, SeqV):
        return v.term
    if isinstance(v, z3.SeqRef):
        return v
    return world.box(v, SeqT(elem))


def same_object(a, b):
    """python identity `a is b` that also works between the pre-state snapshot (`old`) and the post-state: symbolic records carry
    their origin through snapshots, real objects copied for `old` remember the live object they were copied from"""
    oa = a.origin if isinstance(a, (Rec, PyList)) else getattr(a, "_vf_origin", a)
    ob = b.origin if isinstance(b, (Rec, PyList)) else getattr(b, "_vf_origin", b)
    return oa is ob
