"""The AST interpreter of E1: executes the real function body of one path on symbolic values."""
from __future__ import annotations

import ast
import types

import z3

from .engine import (Model, UFunc, Unsupp, PathEnd, RaiseExc, ReturnExc, BreakExc, ContinueExc, T, Int, Bool, Float, RecT, SeqT, FloatV, Rec,
                     PyList, SeqV, Opaque, ExcValue, BoundMethod, FuncRef, ClassInfo, World, Ctx, fresh, is_sym_int,
                     is_sym_bool, is_intlike, to_int_term, to_bool_term, py_floordiv, py_mod, real_of, seq_of, LabelSort,
                     SetV, MapV, s_len, s_at, s_concat, s_snoc, s_extract, s_contains, s_eq, s_empty, is_aseq)

MAX_DEPTH = 14
MAX_UNROLL = 64

EXC_NAMES = {"TypeError", "ValueError", "IndexError", "KeyError", "ZeroDivisionError", "AttributeError", "RuntimeError",
             "NotImplementedError", "AssertionError", "StopIteration", "ArithmeticError", "OverflowError", "Exception",
             "WireError", "AllocationError", "TransformError", "QuantumFunctionError", "DecompositionUndefinedError"}

BUILTIN_TYPES = {"int", "float", "bool", "str", "list", "tuple", "dict", "set", "complex", "type", "object", "frozenset",
                 "Number", "Iterable", "Sequence", "Callable"}


class Closure:
    def __init__(self, node, env, interp):
        self.node, self.env, self.interp = node, env, interp


class DefClosure(Closure):
    """a nested `def` (additive): the FunctionDef node + the defining environment (captured by reference, as python cells are)"""


class GenCM:
    """the object returned by calling a @contextmanager generator function (additive, C41): body not yet executed"""

    def __init__(self, fn, env, ci, qual):
        self.fn, self.env, self.ci, self.qual = fn, env, ci, qual


class StarArgs:
    """`*seq` of symbolic length handed to a contract-supplied callee model (additive, C06)"""

    def __init__(self, seq):
        self.seq = seq


class SuperProxy:
    """zero-argument super() inside a method of an in-scope class (additive, C41): attribute calls go to the contract-supplied
    model of the (library) base class through extra_builtins["method:<name>"] with the proxy as first argument"""

    def __init__(self, obj):
        self.obj = obj


def is_contextmanager_def(fn):
    for d in getattr(fn, "decorator_list", []):
        nm = d.id if isinstance(d, ast.Name) else (d.attr if isinstance(d, ast.Attribute) else "")
        if nm == "contextmanager":
            return True
    return False


PY_FMOD = z3.Function("py_float_mod", z3.RealSort(), z3.RealSort(), z3.RealSort())


class RecDict(Model):
    """`obj.__dict__` of a record: a live view of its fields (membership, item read / write / delete)"""

    def __init__(self, rec):
        self.rec = rec
        view = self

        class _View(Model):
            """items() / keys() / values() of the attribute dictionary: a snapshot list in definition order (additive, C06)"""

            def __init__(self, what):
                self.what = what

            def vf_call(self, interp, args, kwargs):
                f = view.rec.f
                if self.what == "items":
                    return PyList([(k, v) for k, v in f.items()])
                return PyList(list(f.keys()) if self.what == "keys" else list(f.values()))
        self.items, self.keys, self.values = _View("items"), _View("keys"), _View("values")

    def vf_contains(self, interp, key):
        return key in self.rec.f

    def vf_getitem(self, interp, key, node=None):
        if key not in self.rec.f:
            raise RaiseExc("KeyError", node)
        return self.rec.f[key]

    def vf_setitem(self, interp, key, value):
        self.rec.f[key] = value


class PartialM(Model):
    """functools.partial(f, *args, **kwargs)"""

    def __init__(self, func, args, kwargs):
        self.func, self.args, self.keywords = func, args, kwargs

    def vf_call(self, interp, args, kwargs):
        return interp.call(self.func, self.args + list(args), {**self.keywords, **kwargs})


IDENTITY = object()      # marker: the element expression of a comprehension is the element itself


class SymGen:
    """a generator expression over a symbolic-length sequence: (sequence, bound index, element value at that index)"""

    def __init__(self, it, i, val):
        self.it, self.i, self.val = it, i, val


class NS:
    """attribute view of a dict (for invariants / contracts)"""

    def __init__(self, d, **extra):
        self.__dict__.update(d)
        self.__dict__.update(extra)


def Rec_getattr(self, name):
    f = object.__getattribute__(self, "f")
    if name in f:
        return f[name]
    raise AttributeError(name)


Rec.__getattr__ = Rec_getattr


class Interp:
    def __init__(self, ctx: Ctx, spec=None):
        self.ctx = ctx
        self.world = ctx.world
        self.spec = spec                      # CaseSpec of the function under verification (invariants etc.)
        self.loop_counter = 0
        self.top_fn = None

    # ------------------------------------------------------------------ truthiness / coercions
    def truthy(self, v):
        if isinstance(v, bool):
            return v
        if is_sym_bool(v):
            return v
        if isinstance(v, int):
            return v != 0
        if is_sym_int(v):
            return v != 0
        if v is None:
            return False
        if isinstance(v, FloatV):
            return v.t != 0
        if isinstance(v, float):
            return v != 0.0
        if isinstance(v, (tuple, str)):
            return len(v) > 0
        if isinstance(v, PyList):
            return len(v.items) > 0
        if isinstance(v, SeqV):
            return s_len(v.term) > 0
        if isinstance(v, SetV):
            if v.term is None:
                return False
            return self.theory(v.elem).CARDSET(v.term) > 0
        if isinstance(v, Rec):
            if "__bool__" in v.cls.methods:
                return self.truthy(self.call_method(v, "__bool__", [], {}))
            if "__len__" in v.cls.methods:
                return self.truthy(self.call_method(v, "__len__", [], {}))
            return True
        if isinstance(v, (FuncRef, Closure, BoundMethod, Opaque, UFunc, Model, slice)):
            return True
        if isinstance(v, (dict, frozenset)):
            return len(v) > 0
        if "truthy" in self.world.extra_builtins:
            # contract-supplied truth value of an otherwise uninterpreted value (additive): returns a bool / z3 Bool
            return self.world.extra_builtins["truthy"](self, [v], {})
        raise Unsupp(f"truthiness of {v!r}")

    def decide(self, v) -> bool:
        return self.ctx.branch(self.truthy(v))

    # ------------------------------------------------------------------ expressions
    def eval(self, n, env):
        m = getattr(self, "e_" + type(n).__name__, None)
        if m is None:
            raise Unsupp(f"expression {type(n).__name__} at line {getattr(n, 'lineno', '?')}")
        return m(n, env)

    def e_Constant(self, n, env):
        v = n.value
        if isinstance(v, float):
            return FloatV(z3.RealVal(repr(v)))
        if isinstance(v, complex):
            raise Unsupp("complex constant")
        return v

    def e_Name(self, n, env):
        name = n.id
        if name in env:
            return env[name]
        return self.lookup_global(name)

    def lookup_global(self, name):
        w = self.world
        if name in w.classes:
            return FuncRef("class", name, w.classes[name])
        if name in w.functions:
            return FuncRef("function", name, w.functions[name])
        if name in w.extra_builtins:
            return FuncRef("builtin", name)
        if name in EXC_NAMES:
            return FuncRef("exc", name)
        if name == "object":
            return FuncRef("builtin", "object")
        if name in BUILTIN_TYPES:
            return FuncRef("type", name)
        if name in ("True", "False", "None"):
            return {"True": True, "False": False, "None": None}[name]
        if name in w.module_consts:
            try:
                return self.eval(w.module_consts[name], {})
            except Unsupp:
                return Opaque(f"module constant {name}")
        if name in ("math", "np", "numpy", "qp", "copy", "itertools", "functools", "warnings", "inspect"):
            return Opaque("module:" + name)
        return FuncRef("builtin", name)

    def e_JoinedStr(self, n, env):
        if "fstring" in self.world.extra_builtins:
            # contract-supplied model of an f-string whose VALUE matters (additive, C21): gets the JoinedStr node and the environment
            return self.world.extra_builtins["fstring"](self, [n, env], {})
        return Opaque("str")

    def e_Tuple(self, n, env):
        out = []
        for e in n.elts:
            if isinstance(e, ast.Starred):
                out.extend(self.iter_concrete(self.eval(e.value, env)))
            else:
                out.append(self.eval(e, env))
        return tuple(out)

    def e_List(self, n, env):
        return PyList(self.e_Tuple(n, env))

    def e_Set(self, n, env):
        vals = [self.eval(e, env) for e in n.elts]
        if all(isinstance(v, (str, int)) and not isinstance(v, bool) for v in vals):
            return frozenset(vals)          # a set of concrete strings / ints (membership tests only)
        raise Unsupp("set literal")

    def e_Dict(self, n, env):
        d = {}
        for k, v in zip(n.keys, n.values):
            kk = self.eval(k, env)
            if not isinstance(kk, (str, int)):
                raise Unsupp("dict literal with symbolic key")
            d[kk] = self.eval(v, env)
        return d

    def e_NamedExpr(self, n, env):
        v = self.eval(n.value, env)
        env[n.target.id] = v
        return v

    pure = 0     # >0: evaluating the body of a quantified comprehension: no path forks, boolean structure becomes formulas

    def e_IfExp(self, n, env):
        if self.pure:
            t = self.truthy(self.eval(n.test, env))
            if isinstance(t, bool):
                return self.eval(n.body if t else n.orelse, env)
            a, b = self.eval(n.body, env), self.eval(n.orelse, env)
            return self.ite(t, a, b)
        if self.decide(self.eval(n.test, env)):
            return self.eval(n.body, env)
        return self.eval(n.orelse, env)

    def ite(self, c, a, b):
        if a is b:
            return a
        if isinstance(a, tuple) and isinstance(b, tuple) and len(a) == len(b):
            return tuple(self.ite(c, x, y) for x, y in zip(a, b))
        if isinstance(a, Rec) and isinstance(b, Rec) and a.cls is b.cls:
            return Rec(a.cls, {k: self.ite(c, a.f[k], b.f[k]) for k in a.f})
        if (is_sym_bool(a) or isinstance(a, bool)) and (is_sym_bool(b) or isinstance(b, bool)):
            return z3.If(c, to_bool_term(a), to_bool_term(b))
        if is_intlike(a) and is_intlike(b):
            return z3.If(c, to_int_term(a), to_int_term(b))
        if isinstance(a, (FloatV, float)) or isinstance(b, (FloatV, float)):
            return FloatV(z3.If(c, real_of(a), real_of(b)))
        raise Unsupp(f"conditional value of mixed kinds: {a!r} / {b!r}")

    def e_Lambda(self, n, env):
        return Closure(n, env, self)

    def e_UnaryOp(self, n, env):
        v = self.eval(n.operand, env)
        if isinstance(n.op, ast.Not):
            t = self.truthy(v)
            return (not t) if isinstance(t, bool) else z3.Not(t)
        if isinstance(n.op, ast.USub):
            return self.neg(v)
        if isinstance(n.op, ast.UAdd):
            return v
        raise Unsupp("unary op")

    def neg(self, v):
        if isinstance(v, Rec):
            return self.call_method(v, "__neg__", [], {})
        if isinstance(v, FloatV):
            return FloatV(-v.t, None if v.i is None else -v.i)
        if isinstance(v, float):
            return -v
        if is_intlike(v):
            return -v if isinstance(v, int) and not isinstance(v, bool) else -to_int_term(v)
        raise Unsupp(f"negation of {v!r}")

    def e_BoolOp(self, n, env):
        is_and = isinstance(n.op, ast.And)
        if self.pure:
            # no short-circuit fork: operands are evaluated left to right; a concretely decided operand short-circuits
            acc = None
            for e in n.values:
                try:
                    t = self.truthy(self.eval(e, env))
                except (RaiseExc, Unsupp):
                    if acc is None:
                        raise
                    # an operand that cannot be evaluated is only reached when the accumulated guard lets it: keep the guard
                    raise Unsupp("operand of a boolean expression is partial in a quantified context")
                if isinstance(t, bool):
                    if is_and and not t:
                        return False if acc is None else self.and_(acc, False)
                    if not is_and and t:
                        return True if acc is None else self.or_(acc, True)
                    continue
                acc = t if acc is None else (self.and_(acc, t) if is_and else self.or_(acc, t))
            return (is_and if acc is None else acc)
        v = None
        for i, e in enumerate(n.values):
            v = self.eval(e, env)
            if i == len(n.values) - 1:
                return v
            t = self.decide(v)
            if is_and and not t:
                return v if not (is_sym_bool(v) or is_sym_int(v)) else (False if is_sym_bool(v) else v)
            if not is_and and t:
                return v if not is_sym_bool(v) else True
        return v

    def e_Compare(self, n, env):
        left = self.eval(n.left, env)
        result = None
        for op, rn in zip(n.ops, n.comparators):
            right = self.eval(rn, env)
            r = self.compare(op, left, right)
            if result is None:
                result = r
            else:
                result = self.and_(result, r)
            if len(n.ops) > 1 and isinstance(result, bool) and not result:
                return False
            left = right
        return result

    def and_(self, a, b):
        if isinstance(a, bool):
            return b if a else False
        if isinstance(b, bool):
            return a if b else False
        return z3.And(a, b)

    def or_(self, a, b):
        if isinstance(a, bool):
            return True if a else b
        if isinstance(b, bool):
            return True if b else a
        return z3.Or(a, b)

    def not_(self, a):
        return (not a) if isinstance(a, bool) else z3.Not(a)

    def compare(self, op, a, b):
        if isinstance(op, (ast.Is, ast.IsNot)):
            if a is None or b is None:
                r = (a is None) and (b is None)
            elif isinstance(a, (Rec, PyList, SeqV)) or isinstance(b, (Rec, PyList, SeqV)):
                r = a is b
            elif isinstance(a, bool) and isinstance(b, bool):
                r = a == b
            elif isinstance(a, FuncRef) and isinstance(b, FuncRef):
                r = (a.kind, a.name) == (b.kind, b.name)          # named singletons / functions / classes (NotImplemented, ...) (additive, C41)
            elif isinstance(a, (FuncRef, Model)) or isinstance(b, (FuncRef, Model)):
                r = a is b
            else:
                raise Unsupp("`is` on non-None values")
            return r if isinstance(op, ast.Is) else not r
        if isinstance(op, ast.Eq):
            return self.equal(a, b)
        if isinstance(op, ast.NotEq):
            if isinstance(a, Rec) and "__ne__" in a.cls.methods:
                return self.truthy(self.call_method(a, "__ne__", [b], {}))
            return self.not_(self.equal(a, b))
        if isinstance(op, (ast.In, ast.NotIn)):
            r = self.contains(b, a)
            return r if isinstance(op, ast.In) else self.not_(r)
        # ordering
        if isinstance(a, Rec) or isinstance(b, Rec):
            name = {ast.Lt: "__lt__", ast.LtE: "__le__", ast.Gt: "__gt__", ast.GtE: "__ge__"}[type(op)]
            if isinstance(a, Rec) and name in a.cls.methods:
                return self.truthy(self.call_method(a, name, [b], {}))
            raise Unsupp("ordering on records")
        if isinstance(a, (FloatV, float)) or isinstance(b, (FloatV, float)):
            x, y = real_of(a), real_of(b)
        elif is_intlike(a) and is_intlike(b):
            if isinstance(a, int) and isinstance(b, int):
                return {ast.Lt: a < b, ast.LtE: a <= b, ast.Gt: a > b, ast.GtE: a >= b}[type(op)]
            x, y = to_int_term(a), to_int_term(b)
        else:
            raise Unsupp(f"ordering comparison of {a!r} and {b!r}")
        return {ast.Lt: x < y, ast.LtE: x <= y, ast.Gt: x > y, ast.GtE: x >= y}[type(op)]

    def equal(self, a, b):
        if isinstance(a, Rec) and a.cls.is_namedtuple and "__eq__" not in a.cls.methods:
            a = tuple(a.f[k] for k in a.cls.fields)
        if isinstance(b, Rec) and b.cls.is_namedtuple and "__eq__" not in b.cls.methods:
            b = tuple(b.f[k] for k in b.cls.fields)
        if isinstance(a, Rec):
            if "__eq__" in a.cls.methods:
                return self.truthy(self.call_method(a, "__eq__", [b], {}))
            return a is b
        if isinstance(b, Rec):
            if "__eq__" in b.cls.methods:
                return self.truthy(self.call_method(b, "__eq__", [a], {}))
            return a is b
        if a is None or b is None:
            return a is None and b is None
        if isinstance(a, Model) or isinstance(b, Model):
            return a.vf_eq(b) if isinstance(a, Model) else b.vf_eq(a)
        if isinstance(a, str) or isinstance(b, str):
            if isinstance(a, str) and isinstance(b, str):
                return a == b
            return False
        if isinstance(a, Opaque) or isinstance(b, Opaque):
            raise Unsupp("equality on opaque value")
        if isinstance(a, (FloatV, float)) or isinstance(b, (FloatV, float)):
            if not (is_intlike(a) or isinstance(a, (FloatV, float))) or not (is_intlike(b) or isinstance(b, (FloatV, float))):
                return False
            return real_of(a) == real_of(b)
        if is_intlike(a) and is_intlike(b):
            if isinstance(a, (int, bool)) and isinstance(b, (int, bool)):
                return a == b
            if is_sym_bool(a) and is_sym_bool(b):
                return a == b
            return to_int_term(a) == to_int_term(b)
        if isinstance(a, (tuple, PyList)) and isinstance(b, (tuple, PyList)):
            if isinstance(a, tuple) != isinstance(b, tuple):
                return False
            xs = a if isinstance(a, tuple) else a.items
            ys = b if isinstance(b, tuple) else b.items
            if len(xs) != len(ys):
                return False
            r = True
            for x, y in zip(xs, ys):
                r = self.and_(r, self.equal(x, y))
            return r
        if isinstance(a, dict) and isinstance(b, dict):
            if set(a) != set(b):            # python dicts with concrete keys: same key set, equal values
                return False
            r = True
            for k in a:
                r = self.and_(r, self.equal(a[k], b[k]))
            return r
        if isinstance(a, SetV) and isinstance(b, SetV):
            return self.set_term(a, b) == self.set_term(b, a)
        if isinstance(a, SeqV) or isinstance(b, SeqV):
            sa, sb = self.as_seq(a, b), self.as_seq(b, a)
            if is_aseq(sa.term) and sa.is_tuple != sb.is_tuple:
                return False          # a tuple never equals a list
            return s_eq(sa.term, sb.term)
        if isinstance(a, z3.ExprRef) and isinstance(b, z3.ExprRef) and a.sort() == b.sort():
            return a == b
        if type(a) is not type(b):
            return False
        raise Unsupp(f"equality of {a!r} and {b!r}")

    def theory(self, elem):
        th = self.world.theories.get(self.world.sort_of(elem).name())
        if th is None:
            raise Unsupp(f"no axiomatic sequence theory declared for element type {elem} (World.aseq before verification)")
        return th

    def set_term(self, a, like):
        """array term of a set value; the untyped empty set takes the element type of its partner"""
        if a.term is not None:
            return a.term
        elem = like.elem if like is not None and like.elem is not None else None
        if elem is None:
            raise Unsupp("operation on two untyped empty sets")
        return z3.EmptySet(self.world.sort_of(elem))

    def to_set(self, v):
        """set(v) for the supported iterables"""
        if isinstance(v, SetV):
            return SetV(v.term, v.elem)
        if isinstance(v, Rec) and "__iter__" in v.cls.methods:
            v = self.call_method(v, "__iter__", [], {})
        if isinstance(v, (tuple, PyList)):
            items = v if isinstance(v, tuple) else v.items
            if not items:
                return SetV(None, None)
            elem = self.type_of(items[0])
            if elem is None:
                raise Unsupp("set of values of unknown type")
            t = z3.EmptySet(self.world.sort_of(elem))
            for x in items:
                t = z3.SetAdd(t, self.world.box(x, elem))
            return SetV(t, elem)
        if isinstance(v, SeqV) and is_aseq(v.term):
            return SetV(self.theory(v.elem).SETOF(v.term), v.elem)
        raise Unsupp(f"set() of {v!r}")

    def enumerate_set(self, v, as_tuple):
        """tuple(s) / list(s): SOME duplicate-free enumeration of the set (iteration order is unspecified)"""
        if v.term is None:
            return () if as_tuple else PyList([])
        th = self.theory(v.elem)
        t = z3.Const(self.ctx.fresh_name("enum"), th.sort)
        self.ctx.assume(th.NODUP(t))
        self.ctx.assume(th.SETOF(t) == v.term)
        self.ctx.havocked = True
        return SeqV(t, v.elem, as_tuple)

    def as_seq(self, v, like):
        if isinstance(v, SeqV):
            return v
        if isinstance(v, (tuple, PyList)) and isinstance(like, SeqV):
            items = v if isinstance(v, tuple) else v.items
            return SeqV(self.world.box(PyList(items), SeqT(like.elem, ax=is_aseq(like.term))), like.elem, isinstance(v, tuple))
        raise Unsupp("sequence coercion")

    def contains(self, container, x):
        if isinstance(container, (tuple, PyList)):
            items = container if isinstance(container, tuple) else container.items
            r = False
            for it in items:
                r = self.or_(r, self.equal(x, it))
            return r
        if isinstance(container, SeqV):
            return s_contains(container.term, self.world.box(x, container.elem))
        if isinstance(container, SetV):
            return z3.Select(container.term, self.world.box(x, container.elem))
        if isinstance(container, MapV):
            return z3.Select(container.dom, self.world.box(x, container.key_t))
        if isinstance(container, Model) and hasattr(container, "vf_contains"):
            return container.vf_contains(self, x)
        if isinstance(container, frozenset):
            if isinstance(x, (str, int)):
                return x in container
            raise Unsupp("membership of a symbolic value in a concrete set")
        if isinstance(container, dict):
            if isinstance(x, (str, int)):
                return x in container
        if isinstance(container, Rec) and "__contains__" in container.cls.methods:
            return self.truthy(self.call_method(container, "__contains__", [x], {}))
        raise Unsupp(f"membership in {container!r}")

    # ------------------------------------------------------------------ arithmetic
    def e_BinOp(self, n, env):
        a = self.eval(n.left, env)
        b = self.eval(n.right, env)
        return self.binop(n.op, a, b, n)

    DUNDER = {ast.Add: "add", ast.Sub: "sub", ast.Mult: "mul", ast.Div: "truediv", ast.FloorDiv: "floordiv", ast.Mod: "mod",
              ast.Pow: "pow", ast.MatMult: "matmul", ast.BitAnd: "and", ast.BitOr: "or", ast.BitXor: "xor",
              ast.LShift: "lshift", ast.RShift: "rshift"}

    def binop(self, op, a, b, node=None):
        name = self.DUNDER[type(op)]
        if (isinstance(a, Model) and hasattr(a, "vf_binop")) or (isinstance(b, Model) and hasattr(b, "vf_binop")):
            # contract-defined value with operator behaviour (additive, C36): vf_binop(interp, name, other, swapped, node)
            if isinstance(a, Model) and hasattr(a, "vf_binop"):
                return a.vf_binop(self, name, b, False, node)
            return b.vf_binop(self, name, a, True, node)
        if isinstance(a, Rec) or isinstance(b, Rec):
            if isinstance(a, Rec) and f"__{name}__" in a.cls.methods:
                r = self.call_method(a, f"__{name}__", [b], {})
                if not (isinstance(r, FuncRef) and r.name == "NotImplemented"):
                    return r
            if isinstance(b, Rec) and f"__r{name}__" in b.cls.methods:
                return self.call_method(b, f"__r{name}__", [a], {})
            raise RaiseExc("TypeError", node)
        if isinstance(a, SetV) or isinstance(b, SetV):
            if not (isinstance(a, SetV) and isinstance(b, SetV)):
                raise RaiseExc("TypeError", node)
            if a.term is None and b.term is None and isinstance(op, (ast.BitOr, ast.BitAnd, ast.Sub, ast.BitXor)):
                return SetV(None, None)          # every set operation on two empty sets is the empty set
            ta, tb = self.set_term(a, b), self.set_term(b, a)
            elem = a.elem or b.elem
            if isinstance(op, ast.BitOr):
                return SetV(z3.SetUnion(ta, tb), elem)
            if isinstance(op, ast.BitAnd):
                return SetV(z3.SetIntersect(ta, tb), elem)
            if isinstance(op, ast.Sub):
                return SetV(z3.SetDifference(ta, tb), elem)
            if isinstance(op, ast.BitXor):
                return SetV(z3.SetUnion(z3.SetDifference(ta, tb), z3.SetDifference(tb, ta)), elem)
            raise RaiseExc("TypeError", node)
        if isinstance(a, (tuple, PyList, SeqV)) or isinstance(b, (tuple, PyList, SeqV)):
            return self.seq_binop(op, a, b)
        if isinstance(a, str) or isinstance(b, str) or isinstance(a, Opaque) or isinstance(b, Opaque):
            return Opaque("str-expr")
        fl = isinstance(a, (FloatV, float)) or isinstance(b, (FloatV, float))
        if isinstance(op, ast.Div) or fl:
            return self.float_binop(op, a, b, node)
        if not (is_intlike(a) and is_intlike(b)):
            raise Unsupp(f"binary {name} on {a!r}, {b!r}")
        conc = isinstance(a, int) and isinstance(b, int)
        if isinstance(op, ast.Add):
            return a + b if conc else to_int_term(a) + to_int_term(b)
        if isinstance(op, ast.Sub):
            return a - b if conc else to_int_term(a) - to_int_term(b)
        if isinstance(op, ast.Mult):
            return a * b if conc else to_int_term(a) * to_int_term(b)
        if isinstance(op, (ast.FloorDiv, ast.Mod)):
            nz = (b != 0) if isinstance(b, int) else (to_int_term(b) != 0)
            if not self.ctx.branch(nz):
                raise RaiseExc("ZeroDivisionError", node)
            if conc:
                return a // b if isinstance(op, ast.FloorDiv) else a % b
            return py_floordiv(a, b) if isinstance(op, ast.FloorDiv) else py_mod(a, b)
        if isinstance(op, ast.Pow):
            return self.int_pow(a, b, node)
        if isinstance(op, ast.BitAnd) and conc:
            return a & b
        if isinstance(op, ast.BitAnd):
            # x & 1 is the common idiom
            if isinstance(b, int) and b == 1:
                return py_mod(a, 2)
            if is_sym_bool(a) and is_sym_bool(b):
                return z3.And(a, b)
        if isinstance(op, ast.BitXor) and is_sym_bool(a) and is_sym_bool(b):
            return z3.Xor(a, b)
        if isinstance(op, ast.BitOr) and is_sym_bool(a) and is_sym_bool(b):
            return z3.Or(a, b)
        if conc:
            return {ast.BitOr: a | b, ast.BitXor: a ^ b, ast.LShift: a << b, ast.RShift: a >> b}[type(op)]
        if isinstance(op, ast.RShift) and isinstance(b, int) and b >= 0:
            return py_floordiv(a, 2 ** b)
        if isinstance(op, ast.LShift) and isinstance(b, int) and b >= 0:
            return to_int_term(a) * (2 ** b)
        raise Unsupp(f"binary {name} on symbolic ints")

    def int_pow(self, a, b, node):
        if isinstance(a, int) and isinstance(b, int) and b >= 0:
            return a ** b
        if isinstance(b, bool):
            b = int(b)
        if isinstance(b, int):
            if b < 0:
                raise Unsupp("negative integer exponent")
            r = z3.IntVal(1)
            for _ in range(b):
                r = r * to_int_term(a)
            return r
        if is_sym_bool(b):
            return z3.If(b, to_int_term(a), z3.IntVal(1))
        if "pow" in self.world.extra_builtins:
            return self.world.extra_builtins["pow"](self, [a, b], {})
        raise Unsupp("symbolic exponent")

    def float_binop(self, op, a, b, node):
        x, y = real_of(a), real_of(b)
        self.ctx.float_ops.append((getattr(node, "lineno", None), type(op).__name__, a, b))
        if isinstance(op, ast.FloorDiv):
            # float // float over the reals (additive, C36): floor of the quotient (z3 ToInt is floor), as a float
            if not self.ctx.branch(y != 0):
                raise RaiseExc("ZeroDivisionError", node)
            q = z3.ToInt(x / y)
            return FloatV(z3.ToReal(q), q)
        if isinstance(op, ast.Add):
            return FloatV(x + y)
        if isinstance(op, ast.Sub):
            return FloatV(x - y)
        if isinstance(op, ast.Mult):
            return FloatV(x * y)
        if isinstance(op, ast.Div):
            if not self.ctx.branch(y != 0):
                raise RaiseExc("ZeroDivisionError", node)
            r = FloatV(x / y)
            if is_intlike(a) and is_intlike(b):
                r.q = (to_int_term(a), to_int_term(b))
            return r
        if isinstance(op, ast.Pow) and isinstance(b, int) and b >= 0:
            r = z3.RealVal(1)
            for _ in range(b):
                r = r * x
            return FloatV(r)
        if isinstance(op, ast.Mod):
            # python float modulo: an UNINTERPRETED function of both operands (nothing is assumed about it, so whatever is
            # proved holds for the real operation); a zero divisor raises
            if not self.ctx.branch(y != 0):
                raise RaiseExc("ZeroDivisionError", node)
            return FloatV(PY_FMOD(x, y))
        raise Unsupp(f"float operation {type(op).__name__}")

    def seq_binop(self, op, a, b):
        if isinstance(op, ast.Add):
            if isinstance(a, tuple) and isinstance(b, tuple):
                return a + b
            if isinstance(a, PyList) and isinstance(b, PyList):
                return PyList(a.items + b.items)
            if isinstance(a, SeqV) or isinstance(b, SeqV):
                sa, sb = self.as_seq(a, b), self.as_seq(b, a)
                return SeqV(s_concat(sa.term, sb.term), sa.elem, sa.is_tuple)
        if isinstance(op, ast.Mult):
            seq, k = (a, b) if isinstance(a, (tuple, PyList)) else (b, a)
            if isinstance(seq, (tuple, PyList)) and isinstance(k, int):
                return seq * k if isinstance(seq, tuple) else PyList(seq.items * k)
        raise Unsupp(f"sequence operation {type(op).__name__}")

    # ------------------------------------------------------------------ attribute / subscript
    def e_Attribute(self, n, env):
        obj = self.eval(n.value, env)
        return self.getattr(obj, n.attr, n)

    def getattr(self, obj, attr, node=None):
        if isinstance(obj, Rec):
            if attr in obj.f:
                return obj.f[attr]
            if attr in obj.cls.props:
                return self.call_user(obj.cls.props[attr], [obj], {}, obj.cls)
            if attr in obj.cls.methods:
                return BoundMethod(obj, attr)
            if attr == "__class__":
                return FuncRef("class", obj.cls.name, obj.cls)
            if attr == "__dict__":
                return RecDict(obj)
            if attr in obj.cls.class_attrs:
                return self.eval(obj.cls.class_attrs[attr], {})
            raise RaiseExc("AttributeError", node)
        if isinstance(obj, FuncRef) and obj.kind == "class":
            ci = obj.info
            if attr == "__name__":
                return ci.name
            if attr in ci.methods:
                return BoundMethod(obj, attr)
            if attr == "__new__":
                return FuncRef("builtin", "object.__new__")          # a class without its own __new__ (additive, C06): object.__new__(cls)
            cstate = getattr(self.ctx, "class_state", None)
            if cstate is not None and (ci.name, attr) in cstate:
                return cstate[(ci.name, attr)]          # class-level mutable state declared by the contract (additive, C41)
            raise Unsupp(f"class attribute {ci.name}.{attr}")
        if attr == "__doc__" and isinstance(obj, (FuncRef, Model, Closure)):
            return Opaque("doc")
        if isinstance(obj, Model):
            if hasattr(obj, attr):
                return getattr(obj, attr)
            raise RaiseExc("AttributeError", node)
        if isinstance(obj, Opaque) and obj.what.startswith("module:"):
            full = obj.what.split(":")[1] + "." + attr
            consts = getattr(self.world, "module_values", {})
            if full in consts:
                return consts[full]
            return FuncRef("builtin", full)
        if isinstance(obj, (PyList, SeqV, SetV, MapV, FloatV, tuple, dict, str, float, slice)) or is_intlike(obj):
            return BoundMethod(obj, attr)
        if isinstance(obj, FuncRef) and obj.kind in ("builtin", "type"):
            return FuncRef("builtin", obj.name + "." + attr)
        if obj is None:
            raise RaiseExc("AttributeError", node)
        if isinstance(obj, SuperProxy):
            return BoundMethod(obj, attr)
        raise Unsupp(f"attribute {attr} of {obj!r}")

    def e_Subscript(self, n, env):
        obj = self.eval(n.value, env)
        if isinstance(n.slice, ast.Slice):
            lo = self.eval(n.slice.lower, env) if n.slice.lower else None
            hi = self.eval(n.slice.upper, env) if n.slice.upper else None
            st = self.eval(n.slice.step, env) if n.slice.step else None
            return self.slice(obj, lo, hi, st)
        idx = self.eval(n.slice, env)
        return self.index(obj, idx, n)

    def index(self, obj, idx, node=None):
        if isinstance(obj, Model) and hasattr(obj, "vf_getitem"):
            return obj.vf_getitem(self, idx, node)
        if isinstance(idx, slice):
            return self.slice(obj, idx.start, idx.stop, idx.step)
        if isinstance(obj, Rec) and obj.cls.is_namedtuple:
            obj = tuple(obj.f[k] for k in obj.cls.fields)
        if isinstance(obj, (tuple, PyList)):
            items = obj if isinstance(obj, tuple) else obj.items
            if isinstance(idx, bool):
                idx = int(idx)
            if isinstance(idx, int):
                if -len(items) <= idx < len(items):
                    return items[idx]
                raise RaiseExc("IndexError", node)
            # symbolic index into a concrete-length sequence: case split
            it = to_int_term(idx)
            n = len(items)
            for k in range(-n, n):
                if self.ctx.branch(it == k):
                    return items[k]
            raise RaiseExc("IndexError", node)
        if isinstance(obj, SeqV):
            it = to_int_term(idx)
            ln = s_len(obj.term)
            if self.ctx.branch(z3.And(it >= 0, it < ln)):
                return self.world.unbox(s_at(obj.term, it), obj.elem)
            if self.ctx.branch(z3.And(it < 0, it >= -ln)):
                return self.world.unbox(s_at(obj.term, ln + it), obj.elem)
            raise RaiseExc("IndexError", node)
        if isinstance(obj, MapV):
            k = self.world.box(idx, obj.key_t)
            if self.ctx.branch(z3.Select(obj.dom, k)):
                return self.world.unbox(z3.Select(obj.val, k), obj.val_t)
            raise RaiseExc("KeyError", node)
        if isinstance(obj, dict):
            if isinstance(idx, (str, int)) and idx in obj:
                return obj[idx]
            if isinstance(idx, (str, int)) and hasattr(obj, "vf_missing"):
                return obj.vf_missing(self, idx)          # contract-defined dict subclass with __missing__ (defaultdict), additive (C66)
            if is_sym_int(idx) and obj and all(isinstance(k, int) and not isinstance(k, bool) for k in obj):
                # python dict with concrete int keys indexed by a SYMBOLIC int (additive, C22): case split over the keys
                for k in obj:
                    if self.ctx.branch(idx == k):
                        return obj[k]
            raise RaiseExc("KeyError", node)
        if isinstance(obj, Rec) and "__getitem__" in obj.cls.methods:
            return self.call_method(obj, "__getitem__", [idx], {})
        raise Unsupp(f"subscript of {obj!r}")

    def slice(self, obj, lo, hi, st):
        if isinstance(obj, (tuple, PyList)) and all(x is None or isinstance(x, int) for x in (lo, hi, st)):
            items = obj if isinstance(obj, tuple) else obj.items
            r = items[slice(lo, hi, st)]
            return tuple(r) if isinstance(obj, tuple) else PyList(r)
        if isinstance(obj, SeqV) and st is None:
            ln = s_len(obj.term)

            if hi is None and isinstance(lo, int) and lo >= 0:
                # s[k:] for a constant k >= 0: extract(s, k, len - k) (empty when k >= len)
                return SeqV(s_extract(obj.term, z3.IntVal(lo), ln - lo), obj.elem, obj.is_tuple)

            def norm(x, default):
                if x is None:
                    return default
                x = to_int_term(x)
                x = z3.If(x < 0, x + ln, x)
                return z3.If(x < 0, z3.IntVal(0), z3.If(x > ln, ln, x))
            a, b = norm(lo, z3.IntVal(0)), norm(hi, ln)
            return SeqV(s_extract(obj.term, a, z3.If(b > a, b - a, z3.IntVal(0))), obj.elem, obj.is_tuple)
        raise Unsupp("slice")

    # ------------------------------------------------------------------ comprehensions (concrete iteration only)
    def iter_concrete(self, v):
        if isinstance(v, Model) and hasattr(v, "vf_iter"):
            return list(v.vf_iter(self))          # contract-defined iterable of concrete length (additive, C59)
        if isinstance(v, Rec) and v.cls.is_namedtuple:
            return [v.f[k] for k in v.cls.fields]
        if isinstance(v, tuple):
            return list(v)
        if isinstance(v, str):
            return list(v)
        if isinstance(v, PyList):
            return list(v.items)
        if isinstance(v, range):
            if len(v) > MAX_UNROLL:
                raise Unsupp("long concrete range")
            return list(v)
        if isinstance(v, list):
            return v
        if isinstance(v, dict):
            return list(v.keys())
        if isinstance(v, Rec) and "__iter__" in v.cls.methods:
            it = self.call_method(v, "__iter__", [], {})
            if isinstance(it, (tuple, PyList, list, range)):
                return self.iter_concrete(it)
            raise Unsupp("iteration over a record whose __iter__ does not yield a concrete-length sequence")
        if isinstance(v, frozenset):
            return sorted(v, key=str)
        if isinstance(v, FuncRef) and v.kind == "class" and any(str(b).endswith("Enum") for b in v.info.bases):
            # iteration over an Enum class: its members in definition order (each with .name / .value)
            out = []
            for nm, node in v.info.class_attrs.items():
                if not nm.startswith("_"):
                    out.append(Rec(v.info, {"name": nm, "value": self.eval(node, {})}))
            return out
        raise Unsupp(f"iteration over {v!r} needs a loop contract")

    def comp(self, n, env, elt_fn):
        out = []

        def rec(gens, e):
            if not gens:
                out.append(elt_fn(e))
                return
            g = gens[0]
            for item in self.iter_concrete(self.eval(g.iter, e)):
                e2 = dict(e)
                self.assign(g.target, item, e2)
                if all(self.decide(self.eval(c, e2)) for c in g.ifs):
                    rec(gens[1:], e2)
        rec(n.generators, dict(env))
        return out

    def sym_comp(self, n, env):
        """comprehension over ONE symbolic-length sequence without filter: returns (seq, index var, element value) after
        evaluating the element expression in pure mode, or None when the iterable is concrete"""
        if len(n.generators) != 1 or n.generators[0].ifs:
            return None
        g = n.generators[0]
        it = self.eval(g.iter, env)
        if isinstance(it, Rec) and "__iter__" in it.cls.methods and not it.cls.is_namedtuple:
            it = self.call_method(it, "__iter__", [], {})
        if isinstance(it, tuple) and it and isinstance(it[0], str) and it[0] == "symzip":
            # zip of symbolic-length sequences (strict): equal lengths or ValueError; element i is the tuple of the i-th elements
            seqs, strict = it[1], it[2]
            if not strict:
                raise Unsupp("zip of symbolic-length sequences without strict=True")
            for other in seqs[1:]:
                if not self.ctx.branch(s_len(other.term) == s_len(seqs[0].term)):
                    raise RaiseExc("ValueError", n)
            i = z3.Int(self.ctx.fresh_name("ci"))
            e2 = dict(env)
            self.assign(g.target, tuple(self.world.unbox(s_at(sq.term, i), sq.elem) for sq in seqs), e2)
            self.pure += 1
            self.ctx.pure_vars.append(i)
            try:
                val = self.eval(n.elt, e2)
            finally:
                self.pure -= 1
                self.ctx.pure_vars.pop()
            return seqs[0], i, val, e2
        if not isinstance(it, SeqV):
            return None
        # a comprehension over a symbolic-length sequence whose body may raise / fork gets a loop contract: key "comp<k>"
        # (k counts the symbolic comprehensions of the function under contract in execution order)
        if self.in_top and self.spec is not None:
            key = f"comp{self.comp_counter}"
            self.comp_counter += 1
            ls = self.spec.loops.get(key)
            if ls is not None:
                return ("loop", self.comp_as_loop(n, env, it, ls, key))
        i = z3.Int(self.ctx.fresh_name("ci"))
        e2 = dict(env)
        self.assign(g.target, self.world.unbox(s_at(it.term, i), it.elem), e2)
        elem_obj = e2.get(g.target.id) if isinstance(g.target, ast.Name) else None
        self.pure += 1
        self.ctx.pure_vars.append(i)
        try:
            val = self.eval(n.elt, e2)
        finally:
            self.pure -= 1
            self.ctx.pure_vars.pop()
        if elem_obj is not None and val is elem_obj:
            val = IDENTITY
        return it, i, val, e2

    comp_counter = 0

    def comp_as_loop(self, n, env, it, ls, key):
        """[elt for target in seq]  ==  comp_r = []; for target in seq: comp_r.append(elt)   cut by the contract's invariant"""
        g = n.generators[0]
        src = f"for {ast.unparse(g.target)} in comp_it:\n    comp_r.append({ast.unparse(n.elt)})"
        node = ast.parse(src).body[0]
        ast.copy_location(node, n)
        for sub in ast.walk(node):
            if not hasattr(sub, "lineno"):
                sub.lineno, sub.col_offset = n.lineno, 0
        node.lineno = n.lineno
        e2 = dict(env)
        e2["comp_it"], e2["comp_r"] = it, PyList([])
        saved = self.spec.loops.get(-1)
        self.spec.loops[-1] = ls
        try:
            self.sym_for(node, e2, it, -1, ivar="comp_i")
        finally:
            if saved is None:
                self.spec.loops.pop(-1, None)
            else:
                self.spec.loops[-1] = saved
        for k, v in e2.items():          # names bound by the body (walrus) stay local to the comprehension, as in python
            if k in env and k not in ("comp_it", "comp_r") and k not in target_names(g.target):
                env[k] = v
        return e2["comp_r"]

    def e_ListComp(self, n, env):
        sc = self.sym_comp(n, env)
        if sc is None:
            return PyList(self.comp(n, env, lambda e: self.eval(n.elt, e)))
        if sc[0] == "loop":
            return sc[1]
        return self.sym_map(*sc[:3])

    def sym_map(self, it, i, val):
        """[f(x) for x in seq]: fresh sequence r with len(r) == len(seq) and forall i. r[i] == f(seq[i])"""
        if val is IDENTITY:
            return SeqV(it.term, it.elem, False)
        elem = self.type_of(val)
        if elem is not None and self.same_term(self.world.box(val, elem), s_at(it.term, i)):
            return SeqV(it.term, it.elem, False)       # identity map
        if elem is None:
            raise Unsupp("element type of a symbolic comprehension")
        ax = self.world.sort_of(elem).name() in self.world.theories     # element sorts with an axiomatic theory use it
        r = z3.Const(self.ctx.fresh_name("mapped"), self.world.seq_sort(elem, ax))
        rng = z3.And(i >= 0, i < s_len(it.term))
        self.ctx.assume(s_len(r) == s_len(it.term))
        self.ctx.assume(z3.ForAll([i], z3.Implies(rng, s_at(r, i) == self.world.box(val, elem)), patterns=[s_at(r, i)]))
        self.ctx.havocked = True
        self.ctx.ghost.setdefault("mapped", []).append((r, it.term))
        return SeqV(r, elem, False)

    def same_term(self, a, b):
        try:
            return z3.is_true(z3.simplify(a == b))
        except z3.Z3Exception:
            return False

    def type_of(self, v):
        if isinstance(v, bool) or is_sym_bool(v):
            return Bool
        if isinstance(v, int) or is_sym_int(v):
            return Int
        if isinstance(v, (FloatV, float)):
            return Float
        if isinstance(v, Rec):
            return RecT(v.cls.name)
        if isinstance(v, tuple):
            ts = [self.type_of(x) for x in v]
            if any(t is None for t in ts):
                return None
            from .engine import TupleT
            return TupleT(*ts)
        if isinstance(v, z3.ExprRef) and v.sort() == LabelSort:
            from .engine import Label
            return Label
        return None

    def e_GeneratorExp(self, n, env):
        sc = self.sym_comp(n, env)
        if sc is None:
            return PyList(self.comp(n, env, lambda e: self.eval(n.elt, e)))
        if sc[0] == "loop":
            return sc[1]
        return SymGen(*sc[:3])

    def e_DictComp(self, n, env):
        d = {}
        for k, v in self.comp(n, env, lambda e: (self.eval(n.key, e), self.eval(n.value, e))):
            if not isinstance(k, (str, int)):
                raise Unsupp("dict comprehension with symbolic key")
            d[k] = v
        return d

    def e_Starred(self, n, env):
        raise Unsupp("starred expression")

    # ------------------------------------------------------------------ calls
    def e_Call(self, n, env):
        # isinstance needs the syntactic type expression
        if isinstance(n.func, ast.Name) and n.func.id == "isinstance" and "isinstance" not in env:
            return self.isinstance_(self.eval(n.args[0], env), n.args[1], env)
        if isinstance(n.func, ast.Name) and n.func.id == "super" and not n.args and not n.keywords and "super" not in env \
                and isinstance(env.get("self"), Rec):
            return SuperProxy(env["self"])          # additive (C41)
        f = self.eval(n.func, env)
        args = []
        for a in n.args:
            if isinstance(a, ast.Starred):
                sv = self.eval(a.value, env)
                if isinstance(sv, SeqV) and isinstance(f, FuncRef) and f.kind == "builtin" and f.name in self.world.extra_builtins:
                    # *seq of SYMBOLIC length into a contract-supplied callee model (additive, C06): the model receives the whole
                    # sequence as one StarArgs value and must account for every element
                    args.append(StarArgs(sv))
                else:
                    args.extend(self.iter_concrete(sv))
            else:
                args.append(self.eval(a, env))
        kwargs = {}
        for k in n.keywords:
            if k.arg is None:
                d = self.eval(k.value, env)
                if not isinstance(d, dict):
                    raise Unsupp("** of non-dict")
                kwargs.update(d)
            else:
                kwargs[k.arg] = self.eval(k.value, env)
        return self.call(f, args, kwargs, n)

    def type_names(self, texpr, env):
        if isinstance(texpr, ast.Tuple):
            out = []
            for e in texpr.elts:
                out += self.type_names(e, env)
            return out
        if isinstance(texpr, ast.BinOp) and isinstance(texpr.op, ast.BitOr):
            return self.type_names(texpr.left, env) + self.type_names(texpr.right, env)
        if isinstance(texpr, ast.Name):
            if texpr.id in env and isinstance(env[texpr.id], FuncRef):
                return [env[texpr.id].name]
            return [texpr.id]
        if isinstance(texpr, ast.Attribute):
            if texpr.attr == "__class__":
                o = self.eval(texpr.value, env)
                return [o.cls.name] if isinstance(o, Rec) else ["<class of a non-record>"]
            return [texpr.attr]
        if isinstance(texpr, ast.Constant) and texpr.value is None:
            return ["NoneType"]
        raise Unsupp("isinstance type expression")

    def isinstance_(self, v, texpr, env):
        names = self.type_names(texpr, env)
        for nm in names:
            if self.is_kind(v, nm):
                return True
        return False

    def is_kind(self, v, nm):
        if nm == "int":
            return is_intlike(v)
        if nm == "bool":
            return isinstance(v, bool) or is_sym_bool(v)
        if nm == "float":
            return isinstance(v, (FloatV, float))
        if nm in ("Number", "Real"):
            return is_intlike(v) or isinstance(v, (FloatV, float))
        if nm == "str":
            return isinstance(v, str)
        if nm == "tuple":
            return isinstance(v, tuple) or (isinstance(v, SeqV) and v.is_tuple) or (isinstance(v, Rec) and v.cls.is_namedtuple)
        if nm == "list":
            return isinstance(v, PyList) or (isinstance(v, SeqV) and not v.is_tuple)
        if nm in ("Sequence", "Iterable"):
            return isinstance(v, (tuple, PyList, SeqV, str)) or (isinstance(v, Rec) and v.cls.is_namedtuple) \
                or (nm == "Iterable" and isinstance(v, (SetV, MapV))) \
                or (isinstance(v, Rec) and ("__iter__" in v.cls.methods if nm == "Iterable" else "Sequence" in v.cls.bases))
        if nm == "dict":
            return isinstance(v, (dict, MapV))
        if nm in ("set", "frozenset") :
            return isinstance(v, SetV)
        if nm == "slice":
            return isinstance(v, slice)
        if nm == "NoneType":
            return v is None
        if nm in self.world.classes or isinstance(v, Rec):
            return isinstance(v, Rec) and (v.cls.name == nm or nm in getattr(v.cls, "bases", ()))
        if nm in ("ndarray", "complex", "set", "frozenset", "Callable", "<class of a non-record>"):
            return False
        raise Unsupp(f"isinstance against {nm}")

    def call(self, f, args, kwargs, node=None):
        if isinstance(f, DefClosure):
            return self.call_def_closure(f, args, kwargs)
        if isinstance(f, BoundMethod):
            return self.call_bound(f, args, kwargs, node)
        if isinstance(f, Closure):
            return self.call_closure(f, args, kwargs)
        if isinstance(f, Model):
            return f.vf_call(self, args, kwargs)
        if isinstance(f, z3.ExprRef) and "call_value" in self.world.extra_builtins:
            return self.world.extra_builtins["call_value"](self, [f] + list(args), kwargs)
        if isinstance(f, UFunc):
            xs = [real_of(a) for a in args]
            f.calls.append(xs)
            return FloatV(f(*xs))
        if isinstance(f, FuncRef):
            if f.kind == "class":
                return self.instantiate(f.info, args, kwargs)
            if f.kind == "function":
                return self.call_user(f.info, args, kwargs, None, qual=f.name)
            if f.kind == "exc":
                return ExcValue(f.name)
            if f.kind == "type":
                return self.builtin(f.name, args, kwargs, node)
            if f.kind == "builtin":
                return self.builtin(f.name, args, kwargs, node)
        raise Unsupp(f"call of {f!r}")

    def call_closure(self, c, args, kwargs):
        env = dict(c.env)
        a = c.node.args
        for p, v in zip(a.args, args):
            env[p.arg] = v
        if a.vararg is not None and len(args) >= len(a.args) and not kwargs and not a.kwonlyargs and not a.defaults:
            # `lambda *x: ...` / `lambda a, *x: ...` (additive, C21): surplus positional arguments are bound to the vararg tuple
            env[a.vararg.arg] = tuple(args[len(a.args):])
            return self.eval(c.node.body, env)
        if len(args) != len(a.args):
            raise Unsupp("lambda arity")
        return self.eval(c.node.body, env)

    def instantiate(self, ci: ClassInfo, args, kwargs):
        if "__new__" in ci.methods:
            obj = self.call_user(ci.methods["__new__"], [FuncRef("class", ci.name, ci)] + list(args), kwargs, ci,
                                 qual=f"{ci.name}.__new__")
            if not (isinstance(obj, Rec) and obj.cls is ci):
                return obj
            if "__init__" in ci.methods:
                self.call_user(ci.methods["__init__"], [obj] + list(args), kwargs, ci, qual=f"{ci.name}.__init__")
            return obj
        obj = Rec(ci, {})
        if "__init__" in ci.methods:
            self.call_user(ci.methods["__init__"], [obj] + list(args), kwargs, ci, qual=f"{ci.name}.__init__")
        else:
            for f, v in zip(ci.fields, args):
                obj.f[f] = v
        return obj

    def call_method(self, obj: Rec, name, args, kwargs):
        ci = obj.cls
        qual = f"{ci.name}.{name}"
        return self.call_user(ci.methods[name], [obj] + list(args), kwargs, ci, qual=qual)

    def call_bound(self, bm: BoundMethod, args, kwargs, node):
        o = bm.obj
        if isinstance(o, Rec):
            return self.call_method(o, bm.name, args, kwargs)
        if isinstance(o, FuncRef) and o.kind == "class":
            ci = o.info
            fn = ci.methods[bm.name]
            if bm.name in ci.classmethods:
                return self.call_user(fn, [o] + list(args), kwargs, ci, qual=f"{ci.name}.{bm.name}")
            return self.call_user(fn, list(args), kwargs, ci, qual=f"{ci.name}.{bm.name}")
        return self.method_of_builtin(o, bm.name, args, kwargs, node)

    def call_user(self, fn: ast.FunctionDef, args, kwargs, ci, qual=None):
        # modular call: use the callee's contract instead of its body
        mc = self.world.modular.get(qual) if qual else None
        if mc is not None and not (self.top_fn is fn):
            self.ctx.havocked = True
            return mc(self, args, kwargs)
        if self.ctx.depth > MAX_DEPTH:
            raise Unsupp(f"call depth exceeded at {qual}")
        env = self.bind(fn, args, kwargs)
        if fn is not self.top_fn and is_contextmanager_def(fn):
            # calling a @contextmanager generator function only creates the context manager (additive, C41); `with` runs it
            if ci is not None:
                env.setdefault("__class_info__", ci)
            return GenCM(fn, env, ci, qual)
        if ci is not None:
            env.setdefault("__class_info__", ci)
        self.ctx.depth += 1
        saved = self.loop_counter, self.in_top
        try:
            if fn is not self.top_fn:
                self.in_top = False
            self.exec_block(fn.body, env)
            return None
        except ReturnExc as r:
            return r.value
        finally:
            self.ctx.depth -= 1
            self.loop_counter, self.in_top = saved

    in_top = False

    def bind(self, fn, args, kwargs):
        a = fn.args
        env = {}
        params = [p.arg for p in a.posonlyargs + a.args]
        defaults = [None] * (len(params) - len(a.defaults)) + list(a.defaults)
        if len(args) > len(params) and not a.vararg:
            raise RaiseExc("TypeError")
        for p, v in zip(params, args):
            env[p] = v
        if a.vararg:
            env[a.vararg.arg] = tuple(args[len(params):])
        kw = dict(kwargs)
        for p, d in zip(params[len(args):], defaults[len(args):]):
            if p in kw:
                env[p] = kw.pop(p)
            elif d is not None:
                env[p] = self.eval(d, {})
            else:
                raise RaiseExc("TypeError")
        for p, d in zip(a.kwonlyargs, a.kw_defaults):
            if p.arg in kw:
                env[p.arg] = kw.pop(p.arg)
            elif d is not None:
                env[p.arg] = self.eval(d, {})
            else:
                raise RaiseExc("TypeError")
        if a.kwarg:
            env[a.kwarg.arg] = kw
        elif kw:
            raise RaiseExc("TypeError")
        return env

    # ------------------------------------------------------------------ builtins
    def builtin(self, name, args, kwargs, node):
        xb = self.world.extra_builtins
        if name in xb:
            return xb[name](self, args, kwargs)
        m = getattr(self, "b_" + name.replace(".", "_"), None)
        if m is None:
            raise Unsupp(f"call of unmodelled function {name}")
        return m(args, kwargs, node)

    def b_int(self, args, kw, node):
        (v,) = args
        if isinstance(v, bool):
            return int(v)
        if isinstance(v, int) or is_sym_int(v):
            return v
        if is_sym_bool(v):
            return to_int_term(v)
        if isinstance(v, FloatV):
            if v.i is not None:
                return v.i
            self.ctx.float_ops.append((getattr(node, "lineno", None), "int(float)", v, None))
            if v.q is not None:
                # int(a / b) on integers, over the reals: truncated quotient (stated with integer division only)
                a, b = v.q
                aa, ab = z3.If(a >= 0, a, -a), z3.If(b >= 0, b, -b)
                same = z3.Or(z3.And(a >= 0, b > 0), z3.And(a <= 0, b < 0))
                return z3.If(same, aa / ab, -(aa / ab))
            x = v.t
            return z3.If(x >= 0, z3.ToInt(x), -z3.ToInt(-x))
        if isinstance(v, float):
            return int(v)
        raise Unsupp(f"int() of {v!r}")

    def b_float(self, args, kw, node):
        (v,) = args
        if isinstance(v, (FloatV, float)):
            return v if isinstance(v, FloatV) else FloatV(z3.RealVal(repr(v)))
        if isinstance(v, Rec) and "__float__" in v.cls.methods:
            return self.call_method(v, "__float__", [], {})
        self.ctx.float_ops.append((getattr(node, "lineno", None), "float(int)", v, None))
        return FloatV(real_of(v))

    def b_bool(self, args, kw, node):
        return self.truthy(args[0])

    def b_abs(self, args, kw, node):
        (v,) = args
        if isinstance(v, Rec):
            return self.call_method(v, "__abs__", [], {})
        if isinstance(v, int):
            return abs(v)
        if isinstance(v, FloatV):
            return FloatV(z3.If(v.t >= 0, v.t, -v.t))
        t = to_int_term(v)
        return z3.If(t >= 0, t, -t)

    def b_len(self, args, kw, node):
        (v,) = args
        if isinstance(v, (tuple, str, dict)):
            return len(v)
        if isinstance(v, PyList):
            return len(v.items)
        if isinstance(v, SeqV):
            return s_len(v.term)
        if isinstance(v, SetV):
            if v.term is None:
                return 0
            return self.theory(v.elem).CARDSET(v.term)
        if isinstance(v, Rec) and "__len__" in v.cls.methods:
            return self.call_method(v, "__len__", [], {})
        if isinstance(v, Rec) and v.cls.is_namedtuple:
            return len(v.cls.fields)
        raise Unsupp(f"len of {v!r}")

    def _minmax(self, args, kw, is_max):
        items = list(args)
        if len(items) == 1:
            items = self.iter_concrete(items[0])
        if not items:
            raise RaiseExc("ValueError")
        r = items[0]
        for x in items[1:]:
            if isinstance(r, (FloatV, float)) or isinstance(x, (FloatV, float)):
                a, b = real_of(r), real_of(x)
                r = FloatV(z3.If((b > a) if is_max else (b < a), b, a))
            elif isinstance(r, int) and isinstance(x, int):
                r = max(r, x) if is_max else min(r, x)
            else:
                a, b = to_int_term(r), to_int_term(x)
                r = z3.If((b > a) if is_max else (b < a), b, a)
        return r

    def b_max(self, args, kw, node):
        return self._minmax(args, kw, True)

    def b_min(self, args, kw, node):
        return self._minmax(args, kw, False)

    def b_sum(self, args, kw, node):
        if isinstance(args[0], (SymGen, SeqV)):
            if "sum" in self.world.extra_builtins:
                return self.world.extra_builtins["sum"](self, args, kw)
            raise Unsupp("sum over a symbolic-length sequence needs a spec function (extra_builtins['sum'])")
        items = self.iter_concrete(args[0])
        r = args[1] if len(args) > 1 else 0
        for x in items:
            r = self.binop(ast.Add(), r, x)
        return r

    def b_all(self, args, kw, node):
        if isinstance(args[0], SymGen):
            g = args[0]
            if g.val is IDENTITY:
                raise Unsupp("all() over the elements themselves")
            return z3.ForAll([g.i], z3.Implies(z3.And(g.i >= 0, g.i < s_len(g.it.term)), to_bool_term(self.truthy(g.val))))
        r = True
        for x in self.iter_concrete(args[0]):
            r = self.and_(r, self.truthy(x))
        return r

    def b_any(self, args, kw, node):
        if isinstance(args[0], SymGen):
            g = args[0]
            return z3.Exists([g.i], z3.And(g.i >= 0, g.i < s_len(g.it.term), to_bool_term(self.truthy(g.val))))
        r = False
        for x in self.iter_concrete(args[0]):
            r = self.or_(r, self.truthy(x))
        return r

    def b_tuple(self, args, kw, node):
        if not args:
            return ()
        v = args[0]
        if isinstance(v, SymGen):
            r = self.sym_map(v.it, v.i, v.val)
            return SeqV(r.term, r.elem, True)
        if isinstance(v, SeqV):
            return SeqV(v.term, v.elem, True)
        if isinstance(v, SetV):
            return self.enumerate_set(v, True)
        if isinstance(v, z3.ExprRef) and v.sort() == LabelSort:
            raise RaiseExc("TypeError", node)       # a (non-iterable) label
        if isinstance(v, Rec) and "__iter__" in v.cls.methods and not v.cls.is_namedtuple:
            return self.b_tuple([self.call_method(v, "__iter__", [], {})], kw, node)
        return tuple(self.iter_concrete(v))

    def b_list(self, args, kw, node):
        if not args:
            return PyList([])
        v = args[0]
        if isinstance(v, SymGen):
            return self.sym_map(v.it, v.i, v.val)
        if isinstance(v, SeqV):
            return SeqV(v.term, v.elem, False)
        if isinstance(v, SetV):
            return self.enumerate_set(v, False)
        if isinstance(v, Rec) and "__iter__" in v.cls.methods and not v.cls.is_namedtuple:
            return self.b_list([self.call_method(v, "__iter__", [], {})], kw, node)
        return PyList(self.iter_concrete(v))

    def b_functools_reduce(self, args, kw, node):
        f, items = args[0], self.iter_concrete(args[1])
        if len(args) > 2:
            items = [args[2]] + items
        if not items:
            raise RaiseExc("TypeError", node)
        acc = items[0]
        for x in items[1:]:
            acc = self.call(f, [acc, x], {}, node)
        return acc

    def b_itertools_chain(self, args, kw, node):
        seqs = [a for a in args]
        like = next((a for a in seqs if isinstance(a, SeqV)), None)
        if like is None:
            return PyList([x for a in seqs for x in self.iter_concrete(a)])
        acc = None
        for a in seqs:
            a = self.as_seq(a, like)
            acc = a.term if acc is None else s_concat(acc, a.term)
        return SeqV(acc, like.elem, False)

    def b_dict_fromkeys(self, args, kw, node):
        """dict.fromkeys(seq) -- only its key order is modelled: the duplicate-free sequence of first occurrences
        (assumed contract of the builtin: same members, no duplicates, relative order of first occurrences kept)"""
        v = args[0]
        if not (isinstance(v, SeqV) and is_aseq(v.term)) or len(args) > 1:
            raise Unsupp("dict.fromkeys of this value")
        th = self.theory(v.elem)
        c = z3.Const(self.ctx.fresh_name("keys"), th.sort)
        x, y = z3.Const("fk_x", self.world.sort_of(v.elem)), z3.Const("fk_y", self.world.sort_of(v.elem))
        self.ctx.assume(th.NODUP(c))
        self.ctx.assume(z3.ForAll([x], th.MEM(c, x) == th.MEM(v.term, x), patterns=[th.MEM(c, x), th.MEM(v.term, x)]))
        self.ctx.assume(z3.ForAll([x, y], z3.Implies(z3.And(th.MEM(c, x), th.MEM(c, y)),
                                                     (th.IDX(c, x) < th.IDX(c, y)) == (th.IDX(v.term, x) < th.IDX(v.term, y))),
                                  patterns=[z3.MultiPattern(th.IDX(c, x), th.IDX(c, y))]))
        # a duplicate-free PREFIX of the argument is kept as it is (instances for the syntactic prefixes of a concatenation)
        k = z3.Int("fk_k")
        pre = v.term
        while True:
            self.ctx.assume(z3.Implies(th.NODUP(pre), z3.And(th.LEN(pre) <= th.LEN(c),
                                                             z3.ForAll([k], z3.Implies(z3.And(0 <= k, k < th.LEN(pre)), th.AT(c, k) == th.AT(pre, k)),
                                                                       patterns=[th.AT(c, k), th.AT(pre, k)]))))
            if z3.is_app(pre) and pre.decl().name() == th.APP.name():
                pre = pre.arg(0)
            else:
                break
        self.ctx.havocked = True
        return SeqV(c, v.elem, False)

    def b_set(self, args, kw, node):
        if not args:
            return SetV(None, None)
        return self.to_set(args[0])

    def b_range(self, args, kw, node):
        if all(isinstance(a, int) for a in args):
            return range(*args)
        return ("symrange",) + tuple(args)

    def b_zip(self, args, kw, node):
        if args and all(isinstance(a, SeqV) for a in args):
            return ("symzip", list(args), bool(kw.get("strict")))       # consumed by sym_comp (additive)
        seqs = [self.iter_concrete(a) for a in args]
        if kw.get("strict") and len({len(s) for s in seqs}) > 1:
            raise RaiseExc("ValueError", node)
        return PyList([tuple(t) for t in zip(*seqs)])

    def b_enumerate(self, args, kw, node):
        start = args[1] if len(args) > 1 else kw.get("start", 0)
        if isinstance(args[0], SeqV):
            return ("symenum", args[0], start)          # consumed by sym_for: target = (start + counter, element)
        return PyList([(start + i, x) for i, x in enumerate(self.iter_concrete(args[0]))])

    def b_reversed(self, args, kw, node):
        return PyList(list(reversed(self.iter_concrete(args[0]))))

    def b_sorted(self, args, kw, node):
        """sorted(xs) for a concrete-length list/tuple of (symbolic) integers: insertion sort, forking on each comparison"""
        if kw:
            raise Unsupp("sorted with key/reverse")
        v = args[0]
        if isinstance(v, (SeqV, SetV, MapV)):
            raise Unsupp("sorted of a symbolic-length collection")
        out = []
        for x in self.iter_concrete(v):
            if not is_intlike(x):
                raise Unsupp(f"sorted of non-integer element {x!r}")
            pos = len(out)
            for k, y in enumerate(out):
                lt = (x < y) if isinstance(x, int) and isinstance(y, int) else (to_int_term(x) < to_int_term(y))
                if self.ctx.branch(lt):
                    pos = k
                    break
            out.insert(pos, x)
        return PyList(out)

    def b_iter(self, args, kw, node):
        return args[0]

    def b_slice(self, args, kw, node):
        return slice(*args)

    def b_partial(self, args, kw, node):
        return PartialM(args[0], list(args[1:]), dict(kw))

    def b_functools_partial(self, args, kw, node):
        return self.b_partial(args, kw, node)

    def b_round(self, args, kw, node):
        v = args[0]
        if len(args) > 1:
            raise Unsupp("round with ndigits")
        if is_intlike(v):
            return v
        x = real_of(v)
        f = z3.ToInt(x)
        frac = x - z3.ToReal(f)
        half = z3.RealVal("1/2")
        return z3.If(frac < half, f, z3.If(frac > half, f + 1, z3.If(f % 2 == 0, f, f + 1)))

    def b_math_isqrt(self, args, kw, node):
        (n,) = args
        nt = to_int_term(n)
        if not self.ctx.branch(nt >= 0):
            raise RaiseExc("ValueError", node)
        if isinstance(n, int):
            import math
            return math.isqrt(n)
        r = z3.Int(self.ctx.fresh_name("isqrt"))
        self.ctx.assume(z3.And(r >= 0, r * r <= nt, nt < (r + 1) * (r + 1)))
        return r

    def b_isqrt(self, args, kw, node):
        return self.b_math_isqrt(args, kw, node)

    def b_object___new__(self, args, kw, node):
        c = args[0]
        if isinstance(c, FuncRef) and c.kind == "class":
            return Rec(c.info, {})
        raise Unsupp("object.__new__ of a non-class")

    def b_hash(self, args, kw, node):
        if "hash" in self.world.extra_builtins:
            return self.world.extra_builtins["hash"](self, args, kw)
        raise Unsupp("hash needs a spec function")

    def b_type(self, args, kw, node):
        v = args[0]
        if isinstance(v, Rec):
            return FuncRef("class", v.cls.name, v.cls)
        return Opaque("type")

    def b_str(self, args, kw, node):
        return Opaque("str")

    def b_repr(self, args, kw, node):
        return Opaque("str")

    def b_print(self, args, kw, node):
        return None

    def b_deepcopy(self, args, kw, node):
        v = args[0]
        return v.snapshot() if hasattr(v, "snapshot") else v

    def b_copy_deepcopy(self, args, kw, node):
        return self.b_deepcopy(args, kw, node)

    def b_copy_copy(self, args, kw, node):
        v = args[0]
        if isinstance(v, Rec):
            return Rec(v.cls, dict(v.f))
        if isinstance(v, PyList):
            return PyList(list(v.items))
        return v

    def b_warnings_warn(self, args, kw, node):
        return None

    def method_of_builtin(self, o, name, args, kw, node):
        if isinstance(o, FloatV):
            if name == "is_integer":
                return True if o.i is not None else z3.IsInt(o.t)
        if isinstance(o, float) and name == "is_integer":
            return o.is_integer()
        if is_intlike(o) and name == "is_integer":
            return True
        if isinstance(o, PyList):
            if name == "append":
                o.items.append(args[0])
                return None
            if name == "extend":
                o.items.extend(self.iter_concrete(args[0]))
                return None
            if name == "pop":
                if not o.items:
                    raise RaiseExc("IndexError", node)
                if args and not isinstance(args[0], int):
                    # symbolic index into a concrete-length list: one path per position (python: -len <= i < len, else IndexError)
                    it, n = to_int_term(args[0]), len(o.items)
                    for k in range(-n, n):
                        if self.ctx.branch(it == k):
                            return o.items.pop(k)
                    raise RaiseExc("IndexError", node)
                if args and not -len(o.items) <= int(args[0]) < len(o.items):
                    raise RaiseExc("IndexError", node)
                return o.items.pop(*args)
            if name == "copy":
                return PyList(list(o.items))
            if name == "insert":
                if not isinstance(args[0], int):
                    # symbolic index: list.insert clamps, so the element lands at one of the len+1 positions
                    it, n = to_int_term(args[0]), len(o.items)
                    pos_t = z3.If(it < 0, z3.If(it + n < 0, z3.IntVal(0), it + n), z3.If(it > n, z3.IntVal(n), it))
                    for k in range(n):
                        if self.ctx.branch(pos_t == k):
                            o.items.insert(k, args[1])
                            return None
                    o.items.insert(n, args[1])
                    return None
                o.items.insert(args[0], args[1])
                return None
            if name == "reverse":
                o.items.reverse()
                return None
            if name == "__iter__":
                return o
            if name == "index":
                for i, it in enumerate(o.items):
                    if self.ctx.branch(self.equal(it, args[0])):
                        return i
                raise RaiseExc("ValueError", node)
        if isinstance(o, tuple) and name == "index":
            for i, it in enumerate(o):
                if self.ctx.branch(self.equal(it, args[0])):
                    return i
            raise RaiseExc("ValueError", node)
        if isinstance(o, SeqV):
            if name == "append":
                o.term = s_snoc(o.term, self.world.box(args[0], o.elem))
                return None
            if name == "extend":
                other = self.as_seq(args[0], o)
                o.term = s_concat(o.term, other.term)
                return None
            if name == "__iter__":
                return o
            if name == "index" and is_aseq(o.term):
                th = self.theory(o.elem)
                x = self.world.box(args[0], o.elem)
                if self.ctx.branch(th.MEM(o.term, x)):
                    return th.IDX(o.term, x)
                raise RaiseExc("ValueError", node)
            if name == "copy":
                return SeqV(o.term, o.elem, o.is_tuple)
            if name == "pop" and not args:
                ln = s_len(o.term)
                if not self.ctx.branch(ln > 0):
                    raise RaiseExc("IndexError", node)
                last = self.world.unbox(s_at(o.term, ln - 1), o.elem)
                o.term = s_extract(o.term, z3.IntVal(0), ln - 1)
                return last
        if isinstance(o, SetV):
            if name in ("issubset", "issuperset") and isinstance(args[0], SetV):
                a, b = (o, args[0]) if name == "issubset" else (args[0], o)
                if a.term is None:
                    return True
                return z3.IsSubset(self.set_term(a, b), self.set_term(b, a))
            if name == "update" and isinstance(args[0], SetV):
                if args[0].term is not None:
                    o.term = args[0].term if o.term is None else z3.SetUnion(o.term, args[0].term)
                    o.elem = o.elem or args[0].elem
                return None
            if name == "add":
                elem = o.elem or self.type_of(args[0])
                base = o.term if o.term is not None else z3.EmptySet(self.world.sort_of(elem))
                o.term, o.elem = z3.SetAdd(base, self.world.box(args[0], elem)), elem
                return None
            if name == "copy":
                return SetV(o.term, o.elem)
        if isinstance(o, dict):
            if name == "get":
                return o.get(args[0], args[1] if len(args) > 1 else None)
            if name == "items":
                return PyList([(k, v) for k, v in o.items()])
            if name == "keys":
                return PyList(list(o.keys()))
            if name == "values":
                return PyList(list(o.values()))
            if name == "pop":
                if args[0] in o:
                    return o.pop(args[0])
                if len(args) > 1:
                    return args[1]
                raise RaiseExc("KeyError", node)
            if name == "copy":
                return dict(o)
            if name == "update":
                o.update(args[0] if args else {})
                o.update(kw)
                return None
        if isinstance(o, slice) and name == "indices" and all(x is None or isinstance(x, int) for x in (o.start, o.stop, o.step)) \
                and isinstance(args[0], int):
            return tuple(o.indices(args[0]))
        xb = self.world.extra_builtins
        key = f"method:{name}"
        if key in xb:
            return xb[key](self, [o] + list(args), kw)
        raise Unsupp(f"method {name} of {type(o).__name__}")

    # ------------------------------------------------------------------ statements
    def exec_block(self, stmts, env):
        for s in stmts:
            self.exec(s, env)

    def exec(self, s, env):
        m = getattr(self, "s_" + type(s).__name__, None)
        if m is None:
            raise Unsupp(f"statement {type(s).__name__} at line {getattr(s, 'lineno', '?')}")
        return m(s, env)

    def s_Expr(self, s, env):
        if isinstance(s.value, ast.Constant):
            return
        if isinstance(s.value, ast.YieldFrom) and isinstance(env.get("yielded"), SeqV):
            # `yield from xs` inside a generator under contract (additive, C22): every element of xs is yielded in order
            xs = self.eval(s.value.value, env)
            y = env["yielded"]
            if isinstance(xs, SeqV):
                y.term = s_concat(y.term, self.as_seq(xs, y).term)
            elif isinstance(xs, (tuple, PyList)):
                for x in (xs if isinstance(xs, tuple) else xs.items):
                    y.term = s_snoc(y.term, self.world.box(x, y.elem))
            else:
                raise Unsupp("yield from a non-sequence")
            return
        if isinstance(s.value, ast.Yield):
            v = self.eval(s.value.value, env) if s.value.value is not None else None
            hook = getattr(self.ctx, "yield_hook", None)
            if hook is not None and env.get("yielded") is None:
                hook(self, v, env)          # contract / `with`-supplied continuation of a generator-based context manager (additive)
                return
            y = env.get("yielded")
            if y is None:
                raise Unsupp("yield outside a generator under contract")
            if isinstance(y, PyList):
                y.items.append(v)
            else:
                y.term = s_snoc(y.term, self.world.box(v, y.elem))
            return
        self.eval(s.value, env)

    def s_FunctionDef(self, s, env):
        """nested function definition (additive): binds the name to a closure over the current environment"""
        def _is_wraps(d):
            f = d.func if isinstance(d, ast.Call) else d
            return (isinstance(f, ast.Name) and f.id == "wraps") or (isinstance(f, ast.Attribute) and f.attr == "wraps")
        if s.decorator_list and not all(_is_wraps(d) for d in s.decorator_list):
            # @functools.wraps only copies metadata (additive, C41): the decorated nested function behaves as the plain one
            raise Unsupp(f"decorated nested function {s.name} at line {s.lineno}")
        env[s.name] = DefClosure(s, env, self)

    def call_def_closure(self, c, args, kwargs):
        if self.ctx.depth > MAX_DEPTH:
            raise Unsupp(f"call depth exceeded at nested function {c.node.name}")
        env = dict(c.env)
        env.update(self.bind(c.node, args, kwargs))
        self.ctx.depth += 1
        saved = self.loop_counter, self.in_top
        try:
            self.in_top = False
            self.exec_block(c.node.body, env)
            return None
        except ReturnExc as r:
            return r.value
        finally:
            self.ctx.depth -= 1
            self.loop_counter, self.in_top = saved

    def s_Pass(self, s, env):
        return

    def s_Import(self, s, env):
        return

    def s_ImportFrom(self, s, env):
        return

    def s_Global(self, s, env):
        return

    def s_Return(self, s, env):
        raise ReturnExc(self.eval(s.value, env) if s.value is not None else None)

    def s_Raise(self, s, env):
        if s.exc is None:
            raise Unsupp("bare raise")
        e = s.exc
        name = None
        if isinstance(e, ast.Call):
            f = e.func
            name = f.id if isinstance(f, ast.Name) else (f.attr if isinstance(f, ast.Attribute) else None)
        elif isinstance(e, ast.Name):
            name = e.id
            if name in env and isinstance(env[name], ExcValue):
                name = env[name].name
        elif isinstance(e, ast.Attribute):
            v = self.eval(e, env)
            if isinstance(v, ExcValue):
                name = v.name
        if name is None:
            raise Unsupp("raise of a computed exception")
        raise RaiseExc(name, s)

    def s_Assert(self, s, env):
        t = self.truthy(self.eval(s.test, env))
        self.ctx.prove(t, f"assert@{s.lineno}")
        self.ctx.assume(t)

    def s_If(self, s, env):
        if self.decide(self.eval(s.test, env)):
            self.exec_block(s.body, env)
        else:
            self.exec_block(s.orelse, env)

    def s_Assign(self, s, env):
        v = self.eval(s.value, env)
        for t in s.targets:
            self.assign(t, v, env)

    def s_AnnAssign(self, s, env):
        if s.value is not None:
            self.assign(s.target, self.eval(s.value, env), env)

    def s_AugAssign(self, s, env):
        cur = self.eval(_load(s.target), env)
        rhs = self.eval(s.value, env)
        if isinstance(cur, Rec):
            nm = f"__i{self.DUNDER[type(s.op)]}__"
            if nm in cur.cls.methods:
                self.assign(s.target, self.call_method(cur, nm, [rhs], {}), env)
                return
        if isinstance(cur, PyList) and isinstance(s.op, ast.Add):
            cur.items.extend(self.iter_concrete(rhs))
            return
        if isinstance(cur, SeqV) and isinstance(s.op, ast.Add) and not cur.is_tuple:
            cur.term = s_concat(cur.term, self.as_seq(rhs, cur).term)
            return
        if isinstance(cur, dict) and isinstance(rhs, dict) and isinstance(s.op, ast.BitOr):
            cur.update(rhs)          # d |= other on python dicts with concrete keys (additive, C66): IN-PLACE update, identity kept
            return
        self.assign(s.target, self.binop(s.op, cur, rhs, s), env)

    def assign(self, t, v, env):
        if isinstance(t, ast.Name):
            env[t.id] = v
        elif isinstance(t, (ast.Tuple, ast.List)):
            items = self.iter_concrete(v) if not isinstance(v, SeqV) else None
            if items is None:
                raise Unsupp("unpacking a symbolic-length sequence")
            if any(isinstance(e, ast.Starred) for e in t.elts):
                raise Unsupp("starred unpacking")
            if len(items) != len(t.elts):
                raise RaiseExc("ValueError")
            for e, x in zip(t.elts, items):
                self.assign(e, x, env)
        elif isinstance(t, ast.Attribute):
            obj = self.eval(t.value, env)
            cstate = getattr(self.ctx, "class_state", None)
            if isinstance(obj, FuncRef) and obj.kind == "class" and cstate is not None and (obj.info.name, t.attr) in cstate:
                cstate[(obj.info.name, t.attr)] = v          # declared class-level state (additive, C41)
                return
            if isinstance(obj, Model):
                setattr(obj, t.attr, v)
                return
            if not isinstance(obj, Rec):
                raise Unsupp("attribute assignment on non-record")
            if "__set_" + t.attr in obj.cls.methods:
                self.call_user(obj.cls.methods["__set_" + t.attr], [obj, v], {}, obj.cls, qual=f"{obj.cls.name}.{t.attr}.setter")
            else:
                obj.f[t.attr] = v
        elif isinstance(t, ast.Subscript):
            obj = self.eval(t.value, env)
            idx = self.eval(t.slice, env)
            if isinstance(obj, Model) and hasattr(obj, "vf_setitem"):
                obj.vf_setitem(self, idx, v)
            elif isinstance(obj, PyList) and isinstance(idx, int):
                if not -len(obj.items) <= idx < len(obj.items):
                    raise RaiseExc("IndexError")
                obj.items[idx] = v
            elif isinstance(obj, dict) and isinstance(idx, (str, int)):
                obj[idx] = v
            elif isinstance(obj, dict) and isinstance(idx, tuple) and all(isinstance(x, (str, int)) and not isinstance(x, bool) for x in idx):
                obj[idx] = v          # python dict keyed by a tuple of concrete ints / strings (additive, C21)
            elif isinstance(obj, Rec) and "__setitem__" in obj.cls.methods:
                self.call_method(obj, "__setitem__", [idx, v], {})          # additive (C41)
            elif type(obj) is MapV or getattr(obj, "plain_map", False):
                # d[k] = v on a symbolic finite map (additive, C22): functional update of domain and values
                k = self.world.box(idx, obj.key_t)
                obj.dom = z3.Store(obj.dom, k, z3.BoolVal(True))
                obj.val = z3.Store(obj.val, k, self.world.box(v, obj.val_t))
            else:
                raise Unsupp("subscript assignment")
        else:
            raise Unsupp("assignment target")

    def s_Delete(self, s, env):
        for t in s.targets:
            if isinstance(t, ast.Name):
                env.pop(t.id, None)
            elif isinstance(t, ast.Subscript) and not isinstance(t.slice, ast.Slice) and isinstance(self.eval(t.value, env), Rec):
                # del rec[key] (additive, C41): the class's own __delitem__, else the contract's model of the base class
                obj, idx = self.eval(t.value, env), self.eval(t.slice, env)
                if "__delitem__" in obj.cls.methods:
                    self.call_method(obj, "__delitem__", [idx], {})
                elif "method:__delitem__" in self.world.extra_builtins:
                    self.world.extra_builtins["method:__delitem__"](self, [SuperProxy(obj), idx], {})
                else:
                    raise Unsupp("del of a subscript of a record without __delitem__")
            elif isinstance(t, ast.Subscript) and not isinstance(t.slice, ast.Slice) and isinstance(self.eval(t.value, env), dict):
                d, key = self.eval(t.value, env), self.eval(t.slice, env)      # del d[k] on a python dict with concrete keys (additive)
                if not isinstance(key, (str, int)):
                    raise Unsupp("del of a symbolic dict key")
                if key not in d:
                    raise RaiseExc("KeyError", s)
                del d[key]
            else:
                raise Unsupp("del of non-name")

    def s_Break(self, s, env):
        raise BreakExc()

    def s_Continue(self, s, env):
        raise ContinueExc()

    # ---- loops
    def s_For(self, s, env):
        ordinal = self.next_loop()
        it = self.eval(s.iter, env)
        if isinstance(it, Rec) and "__iter__" in it.cls.methods and not it.cls.is_namedtuple:
            it = self.call_method(it, "__iter__", [], {})
        if isinstance(it, SeqV) or (isinstance(it, tuple) and it and isinstance(it[0], str) and it[0] in ("symrange", "symenum")):
            return self.sym_for(s, env, it, ordinal)
        items = self.iter_concrete(it)
        broke = False
        for x in items:
            self.assign(s.target, x, env)
            try:
                self.exec_block(s.body, env)
            except BreakExc:
                broke = True
                break
            except ContinueExc:
                continue
        if not broke:
            self.exec_block(s.orelse, env)

    def next_loop(self):
        k = self.loop_counter
        self.loop_counter += 1
        return k

    def loop_spec(self, ordinal):
        if self.spec is None or not self.in_top:
            return None
        return self.spec.loops.get(ordinal)

    def s_While(self, s, env):
        ordinal = self.next_loop()
        ls = self.loop_spec(ordinal)
        if ls is None:
            # no invariant: bounded unrolling is only sound if the loop provably exits within the bound
            for _ in range(MAX_UNROLL):
                if not self.decide(self.eval(s.test, env)):
                    self.exec_block(s.orelse, env)
                    return
                try:
                    self.exec_block(s.body, env)
                except BreakExc:
                    return
                except ContinueExc:
                    continue
            raise Unsupp(f"while loop at line {s.lineno} has no invariant and did not exit within {MAX_UNROLL} iterations")
        self.cut_loop(s, env, ls, ordinal, cond=lambda e: self.eval(s.test, e), pre_body=None, post_body=None)

    def sym_for(self, s, env, it, ordinal, ivar=None):
        ls = self.loop_spec(ordinal)
        if ls is None:
            raise Unsupp(f"for loop over a symbolic-length iterable at line {s.lineno} needs a loop contract")
        ivar = ivar or f"_i{ordinal}"
        enum_start = None
        if isinstance(it, tuple) and it and isinstance(it[0], str) and it[0] == "symenum":
            enum_start, it = it[2], it[1]
        if isinstance(it, SeqV):
            n = s_len(it.term)
            env[ivar] = 0

            def nth(term, i):
                # element i of extract(base, off, n) is base[off + i] (inside the loop 0 <= i < len): keeps VCs about `base`
                if z3.is_app_of(term, z3.Z3_OP_SEQ_EXTRACT):
                    base, off, _ = term.children()
                    return base[off + i]
                return s_at(term, i)

            def pre(e):
                el = self.world.unbox(nth(it.term, to_int_term(e[ivar])), it.elem)
                if enum_start is not None:
                    el = (to_int_term(enum_start) + to_int_term(e[ivar]), el)
                self.assign(s.target, el, e)

            def cond(e):
                return to_int_term(e[ivar]) < n
            bound = lambda e: z3.And(to_int_term(e[ivar]) >= 0, to_int_term(e[ivar]) <= n)
        else:
            rargs = list(it[1:])
            if len(rargs) == 1:
                lo, hi, st = 0, rargs[0], 1
            elif len(rargs) == 2:
                lo, hi, st = rargs[0], rargs[1], 1
            else:
                lo, hi, st = rargs
            if isinstance(st, bool):
                st = int(st)
            if isinstance(st, int) and st == 0:
                raise RaiseExc("ValueError", s)        # range() arg 3 must not be zero
            if not isinstance(st, int):
                # symbolic step (additive, C43): python raises ValueError for step == 0; otherwise the SIGN of the step is
                # decided by a path fork and the loop is the index loop  x = lo + st*counter  while x < hi (st > 0) / x > hi
                if not is_sym_int(st):
                    raise Unsupp("symbolic range step")
                st_term = st
                if self.ctx.branch(st_term == 0):
                    raise RaiseExc("ValueError", s)
                st_pos = self.ctx.branch(st_term > 0)
            else:
                st_term, st_pos = st, st > 0
            env[ivar] = 0   # iteration counter; loop variable = lo + st*counter

            def pre(e):
                self.assign(s.target, to_int_term(lo) + st_term * to_int_term(e[ivar]), e)

            def cond(e):
                x = to_int_term(lo) + st_term * to_int_term(e[ivar])
                return (x < to_int_term(hi)) if st_pos else (x > to_int_term(hi))
            bound = lambda e: to_int_term(e[ivar]) >= 0

        def post(e):
            e[ivar] = to_int_term(e[ivar]) + 1
        self.cut_loop(s, env, ls, ordinal, cond=cond, pre_body=pre, post_body=post, extra_inv=bound, extra_mod={ivar})

    def cut_loop(self, s, env, ls, ordinal, cond, pre_body, post_body, extra_inv=None, extra_mod=()):
        ctx = self.ctx
        entry = dict(env)
        entry_snap = {k: (v.snapshot() if hasattr(v, "snapshot") else v) for k, v in env.items()}

        def inv_holds(e):
            ns = NS({k: v for k, v in e.items() if not k.startswith("__")}, at_entry=NS(entry_snap), old=NS(self.old_args),
                    ghost=NS(ctx.ghost))
            r = ls.inv(ns)
            if extra_inv is not None:
                r = self.and_(extra_inv(e), r)
            return r
        if ls.axioms is not None:
            ns0 = NS({k: v for k, v in env.items() if not k.startswith("__")}, at_entry=NS(entry_snap), old=NS(self.old_args),
                     ghost=NS(ctx.ghost))
            for ax in ls.axioms(ns0):
                ctx.assume(ax)
        ctx.prove(inv_holds(env), f"loop{ordinal}@{s.lineno}/inv-init")
        # havoc everything the body may modify
        ctx.havocked = True
        mod = assigned_names(s.body) | set(extra_mod)
        if isinstance(s, ast.For):
            mod |= target_names(s.target)
        for name in sorted(mod):
            if name in ls.types:
                env[name] = fresh(ctx, ls.types[name], name)
            elif name in env:
                env[name] = self.fresh_like(env[name], name)
            # names first assigned inside the body need no havoc
        for path in sorted(mutated_attr_paths(s.body)):
            self.havoc_path(env, path, ls)
        # ghost state written by callee models inside the body (call logs ...): LoopSpec attribute `ghost_types` (additive, C43)
        for gname, gtype in sorted((getattr(ls, "ghost_types", None) or {}).items()):
            ctx.ghost[gname] = fresh(ctx, gtype, "ghost." + gname)
        # objects mutated THROUGH CALLS inside the body (the syntactic modified-set above cannot see them): LoopSpec attribute
        # `modifies` = names of local variables whose contents are havocked in place, identity kept (additive, C47)
        for mname in (getattr(ls, "modifies", None) or ()):
            from . import xmaps
            xmaps.havoc_in_place(self, env[mname], mname)
        ctx.assume(inv_holds(env))

        def add_axioms(e):
            if ls.axioms is not None:
                ns = NS({k: v for k, v in e.items() if not k.startswith("__")}, at_entry=NS(entry_snap), old=NS(self.old_args),
                        ghost=NS(ctx.ghost))
                for ax in ls.axioms(ns):
                    ctx.assume(ax)
        add_axioms(env)
        measure0 = ls.decreases(NS(env)) if ls.decreases else None
        if ctx.branch(self.truthy(cond(env))):
            try:
                if pre_body:
                    pre_body(env)
                try:
                    self.exec_block(s.body, env)
                except ContinueExc:
                    pass
                if post_body:
                    post_body(env)
            except BreakExc:
                return  # continue after the loop with the state at the break
            add_axioms(env)
            ctx.prove(inv_holds(env), f"loop{ordinal}@{s.lineno}/inv-preserved")
            if measure0 is not None:
                m1 = ls.decreases(NS(env))
                ctx.prove(z3.And(to_int_term(m1) < to_int_term(measure0), to_int_term(measure0) >= 0),
                          f"loop{ordinal}@{s.lineno}/decreases")
            raise PathEnd()
        self.exec_block(getattr(s, "orelse", []), env)

    def fresh_like(self, v, name):
        ctx = self.ctx
        if isinstance(v, bool) or is_sym_bool(v):
            return fresh(ctx, Bool, name)
        if isinstance(v, int) or is_sym_int(v):
            return fresh(ctx, Int, name)
        if isinstance(v, (FloatV, float)):
            return fresh(ctx, Float, name)
        if isinstance(v, Rec):
            return Rec(v.cls, {k: self.fresh_like(x, f"{name}.{k}") for k, x in v.f.items()})
        if isinstance(v, tuple):
            return tuple(self.fresh_like(x, f"{name}.{i}") for i, x in enumerate(v))
        if isinstance(v, SeqV):
            return SeqV(z3.Const(ctx.fresh_name(name), v.term.sort()), v.elem, v.is_tuple)
        if isinstance(v, z3.ExprRef) and v.sort() == LabelSort:
            return z3.Const(ctx.fresh_name(name), LabelSort)
        if isinstance(v, (FuncRef, Closure, Opaque, str)) or v is None:
            raise Unsupp(f"loop modifies `{name}` whose type cannot be inferred from its entry value {v!r}; give loop types")
        raise Unsupp(f"cannot havoc {name} = {v!r}")

    def havoc_path(self, env, path, ls):
        root, *attrs = path
        if root not in env or not isinstance(env[root], Rec):
            return
        obj = env[root]
        for a in attrs[:-1]:
            obj = obj.f.get(a)
            if not isinstance(obj, Rec):
                return
        last = attrs[-1]
        key = ".".join(path)
        if key in ls.types:
            obj.f[last] = fresh(self.ctx, ls.types[key], key)
        elif last in obj.f:
            obj.f[last] = self.fresh_like(obj.f[last], key)

    # ---- with / try (minimal)
    def s_With(self, s, env):
        """`with` (additive, C41) for (a) generator-based context managers of in-scope @contextmanager functions: the generator
        body is executed with the with-body substituted for its single `yield` (an exception of the with-body is raised at the
        yield, exactly as contextlib does), which needs try/finally with full semantics (World.strict_finally);
        (b) records whose class defines __enter__/__exit__."""
        if len(s.items) != 1:
            raise Unsupp("with statement with several items")
        item = s.items[0]
        cm = self.eval(item.context_expr, env)
        if isinstance(cm, GenCM):
            if not getattr(self.world, "strict_finally", False):
                raise Unsupp("with on a generator context manager needs World.strict_finally")
            state = {"yields": 0}
            saved_hook = getattr(self.ctx, "yield_hook", None)

            def hook(it, value, genv):
                state["yields"] += 1
                if state["yields"] > 1:
                    raise Unsupp("context manager generator yields twice")
                self.ctx.yield_hook = saved_hook
                try:
                    if item.optional_vars is not None:
                        self.assign(item.optional_vars, value, env)
                    self.exec_block(s.body, env)
                except ReturnExc as r:
                    r.from_with_body = True          # a `return` of the with-body: leaves the enclosing function
                    raise
                finally:
                    self.ctx.yield_hook = hook
            self.ctx.yield_hook = hook
            self.ctx.depth += 1
            saved = self.loop_counter, self.in_top
            try:
                self.in_top = False
                try:
                    self.exec_block(cm.fn.body, cm.env)
                except ReturnExc as r:
                    # a `return` of the WITH-BODY travels through the generator's finally clauses and leaves the function;
                    # a `return` of the generator itself (after its yield) just ends the context manager
                    if getattr(r, "from_with_body", False):
                        raise
                    if state["yields"] == 0:
                        raise Unsupp("context manager generator returned without yielding")
                    return
            finally:
                self.ctx.depth -= 1
                self.loop_counter, self.in_top = saved
                self.ctx.yield_hook = saved_hook
            if state["yields"] == 0:
                raise Unsupp("context manager generator did not yield")
            return
        if isinstance(cm, Rec) and "__enter__" in cm.cls.methods and "__exit__" in cm.cls.methods:
            v = self.call_method(cm, "__enter__", [], {})
            if item.optional_vars is not None:
                self.assign(item.optional_vars, v, env)
            try:
                self.exec_block(s.body, env)
            except RaiseExc as r:
                if self.truthy_concrete(self.call_method(cm, "__exit__", [ExcValue(r.name), ExcValue(r.name), None], {})):
                    return
                raise
            except (ReturnExc, BreakExc, ContinueExc):
                self.call_method(cm, "__exit__", [None, None, None], {})
                raise
            self.call_method(cm, "__exit__", [None, None, None], {})
            return
        raise Unsupp("with statement on an unsupported context manager")

    def truthy_concrete(self, v):
        t = self.truthy(v) if v is not None else False
        if isinstance(t, bool):
            return t
        return self.ctx.branch(t)

    def s_Try(self, s, env):
        if s.finalbody and not s.handlers and getattr(self.world, "strict_finally", False):
            # full try/finally semantics (additive, opt-in per World): the finally clause also runs when the body leaves by an
            # exception, return, break or continue, which then continues to propagate
            try:
                self.exec_block(s.body, env)
            except (RaiseExc, ReturnExc, BreakExc, ContinueExc):
                self.exec_block(s.finalbody, env)
                raise
            self.exec_block(s.finalbody, env)
            return
        if s.finalbody and not s.handlers:
            try:
                self.exec_block(s.body, env)
            finally:
                pass
            self.exec_block(s.finalbody, env)
            return
        try:
            self.exec_block(s.body, env)
        except RaiseExc as r:
            for h in s.handlers:
                names = []
                if h.type is None:
                    names = None
                else:
                    names = self.type_names(h.type, env)
                if names is None or r.name in names or "Exception" in names:
                    if h.name:
                        env[h.name] = ExcValue(r.name)
                    self.exec_block(h.body, env)
                    self.exec_block(s.finalbody, env)
                    return
            raise
        self.exec_block(s.orelse, env)
        self.exec_block(s.finalbody, env)

    old_args = {}


def _load(t):
    t2 = ast.parse(ast.unparse(t), mode="eval").body
    return t2


def target_names(t):
    out = set()
    for n in ast.walk(t):
        if isinstance(n, ast.Name):
            out.add(n.id)
    return out


MUTATORS = {"append", "extend", "pop", "insert", "remove", "clear", "sort", "reverse", "update", "add", "discard", "setdefault"}


def assigned_names(body):
    """names (re)bound or mutated in place anywhere in the loop body"""
    out = set()
    for st in body:
        for n in ast.walk(st):
            if isinstance(n, (ast.Assign, ast.AnnAssign)):
                for t in (n.targets if isinstance(n, ast.Assign) else [n.target]):
                    for x in ast.walk(t):
                        if isinstance(x, ast.Name) and isinstance(x.ctx, ast.Store):
                            out.add(x.id)
                        if isinstance(x, ast.Subscript) and isinstance(x.value, ast.Name):
                            out.add(x.value.id)
            elif isinstance(n, ast.AugAssign):
                if isinstance(n.target, ast.Name):
                    out.add(n.target.id)
                elif isinstance(n.target, ast.Subscript) and isinstance(n.target.value, ast.Name):
                    out.add(n.target.value.id)
            elif isinstance(n, ast.NamedExpr):
                out.add(n.target.id)
            elif isinstance(n, (ast.For, ast.comprehension)):
                out |= target_names(n.target)
            elif isinstance(n, ast.Call) and isinstance(n.func, ast.Attribute) and n.func.attr in MUTATORS \
                    and isinstance(n.func.value, ast.Name):
                out.add(n.func.value.id)
            elif isinstance(n, ast.Delete):
                for t in n.targets:
                    if isinstance(t, ast.Subscript) and isinstance(t.value, ast.Name):
                        out.add(t.value.id)
            elif isinstance(n, (ast.Yield, ast.YieldFrom)):
                out.add("yielded")
    return out


def mutated_attr_paths(body):
    """attribute paths like ('self','x') assigned or mutated in the loop body"""
    out = set()

    def path_of(e):
        p = []
        while isinstance(e, ast.Attribute):
            p.append(e.attr)
            e = e.value
        if isinstance(e, ast.Name):
            return tuple([e.id] + p[::-1])
        return None
    for st in body:
        for n in ast.walk(st):
            tgts = []
            if isinstance(n, ast.Assign):
                tgts = n.targets
            elif isinstance(n, (ast.AugAssign, ast.AnnAssign)):
                tgts = [n.target]
            for t in tgts:
                for x in ast.walk(t):
                    if isinstance(x, ast.Attribute) and isinstance(x.ctx, ast.Store):
                        p = path_of(x)
                        if p:
                            out.add(p)
                    if isinstance(x, ast.Subscript) and isinstance(x.value, ast.Attribute):
                        p = path_of(x.value)
                        if p:
                            out.add(p)
            if isinstance(n, ast.Call) and isinstance(n.func, ast.Attribute) and n.func.attr in MUTATORS \
                    and isinstance(n.func.value, ast.Attribute):
                p = path_of(n.func.value)
                if p:
                    out.add(p)
    return out
