"""Common layer: obligations, parallel runner, verdict mapping, evidence, known findings, replay files.

Exit codes of every check (DESIGN 2.6): 0 held, 1 violation, 2 undecided, 3 checker fault.
"""
from __future__ import annotations

import ast
import hashlib
import json
import multiprocessing as mp
import os
import re
import signal
import sys
import time
import traceback

VERIF = os.path.dirname(os.path.dirname(os.path.abspath(__file__)))
REPO = os.environ.get("VERIF_REPO", "/repo")

DISCHARGED, REFUTED, UNDECIDED, FAULT = "discharged", "refuted", "undecided", "fault"


class Outcome:
    """Result of one obligation.

    status   : discharged | refuted | undecided | fault
    backend  : which decision procedure produced the verdict
    witness  : JSON-able counter-model (refuted only) or None
    replay   : dict(confirmed=True|False|None, observed=..., expected=..., note=...) - the witness run on the real code
               confirmed None means "no failing input found" (definite refutation without a replayable input)
    """

    def __init__(self, status, backend="", detail="", witness=None, replay=None, seconds=0.0, extra=None):
        self.status, self.backend, self.detail = status, backend, detail
        self.witness, self.replay, self.seconds = witness, replay, seconds
        self.extra = extra or {}

    def as_dict(self):
        return dict(status=self.status, backend=self.backend, detail=self.detail, witness=self.witness,
                    replay=self.replay, seconds=round(self.seconds, 4), extra=self.extra)


class Obligation:
    """One named proof obligation. `fn()` returns an Outcome; `replay(witness)` re-runs a stored witness on the real code."""

    def __init__(self, name, kind, fn, *, finding=None, sample=None, bounded=False, size_bounded=False,
                 replay=None, timeout=None, func=None):
        self.name, self.kind, self.fn = name, kind, fn
        self.finding = finding          # id of a known-findings entry this obligation is the *instance* of
        self.sample = sample            # short text shown in evidence samples
        self.bounded = bounded          # bounded stand-in: never counted as discharged proof obligation
        self.size_bounded = size_bounded
        self.replay = replay
        self.timeout = timeout
        self.func = func                # (file, qualname) the obligation is generated from


class Plan:
    """What a property module returns from build()."""

    def __init__(self, pid, level="proof"):
        self.pid = pid
        self.level = level
        self.obligations: list[Obligation] = []
        self.functions: list[tuple[str, str]] = []     # (repo-relative file, qualname) under contract
        self.assumptions: list[str] = []
        self.assumed_contracts: list[str] = []
        self.unverified: list[str] = []
        self.size_bounds: list[str] = []
        self.trusted_base: list[str] = []
        self.explanation = ""
        self.notes: dict = {}
        self.dropped: list[str] = []                   # what extraction drops

    def add(self, ob: Obligation):
        self.obligations.append(ob)
        return ob

    def fn_under_contract(self, file, qualname):
        if (file, qualname) not in self.functions:
            self.functions.append((file, qualname))


# ------------------------------------------------------------------------------------------------
# source location / hashing of the real functions


_AST_CACHE: dict = {}


def repo_path(rel):
    return os.path.join(REPO, rel)


def parse_repo_file(rel):
    p = repo_path(rel)
    st = os.stat(p)
    key = (p, st.st_mtime_ns, st.st_size)
    if key not in _AST_CACHE:
        src = open(p).read()
        _AST_CACHE[key] = (src, ast.parse(src))
    return _AST_CACHE[key]


def find_def(rel, qualname):
    """Locate a (possibly nested) function/class by qualname 'A.b' or 'f.<locals>.g' in a repo file."""
    src, tree = parse_repo_file(rel)
    node = tree
    for part in qualname.split("."):
        if part == "<locals>":
            continue
        found = None
        body = node.body
        # search also inside if/try blocks at this level
        stack = list(body)
        while stack:
            n = stack.pop(0)
            if isinstance(n, (ast.FunctionDef, ast.AsyncFunctionDef, ast.ClassDef)) and n.name == part:
                # python semantics: the LAST definition of a name wins (e.g. after @overload stubs); property setters /
                # deleters re-use the getter's name and are located by find_property_setter instead
                decos = [d.attr if isinstance(d, ast.Attribute) else (d.id if isinstance(d, ast.Name) else "") for d in getattr(n, "decorator_list", [])]
                if any(d in ("setter", "deleter", "overload") for d in decos) and found is not None:
                    continue
                if any(d in ("setter", "deleter") for d in decos):
                    continue
                found = n
                continue
            if isinstance(n, (ast.If, ast.Try, ast.With)):
                stack = list(getattr(n, "body", [])) + list(getattr(n, "orelse", [])) + \
                    list(getattr(n, "finalbody", [])) + stack
                for h in getattr(n, "handlers", []):
                    stack = list(h.body) + stack
        if found is None:
            raise KeyError(f"{rel}:{qualname} not found (at {part})")
        node = found
    return src, node


def find_property_setter(rel, cls, name):
    """Locate the @name.setter method of a class."""
    src, c = find_def(rel, cls)
    for n in c.body:
        if isinstance(n, ast.FunctionDef) and n.name == name:
            for d in n.decorator_list:
                if isinstance(d, ast.Attribute) and d.attr == "setter":
                    return src, n
    raise KeyError(f"{rel}:{cls}.{name} setter")


def source_hash(rel, qualname):
    try:
        src, node = find_def(rel, qualname)
        seg = ast.get_source_segment(src, node) or ""
        return hashlib.sha256(seg.encode()).hexdigest()[:16]
    except Exception as e:  # pylint: disable=broad-except
        return f"unlocated:{type(e).__name__}"


def file_hash(rel):
    try:
        return hashlib.sha256(open(os.path.join(REPO, rel), "rb").read()).hexdigest()[:16]
    except OSError:
        return "missing"


def load_baseline(pid):
    """obligations discharged on the pinned tree -> hash of the repo file they were generated from (committed; written only by
    `VERIF_RECORD_BASELINE=1 ./check <id>`, never at check time)"""
    p = os.path.join(VERIF, "baseline", f"{pid}.json")
    if not os.path.exists(p):
        return {}
    return json.load(open(p))


# ------------------------------------------------------------------------------------------------
# runner

_OBLIGS: list[Obligation] = []


class _Timeout(Exception):
    pass


def _alarm(signum, frame):
    raise _Timeout()


DEFAULT_TIMEOUT = 900       # wall-clock budget of an obligation that does not state one (nothing may run unbounded)


def _run_one(i):
    ob = _OBLIGS[i]
    t0 = time.time()
    to = ob.timeout or DEFAULT_TIMEOUT
    if os.environ.get("VERIF_DEBUG_HANG"):
        import faulthandler
        faulthandler.dump_traceback_later(int(os.environ["VERIF_DEBUG_HANG"]), exit=False)
    try:
        if to:
            signal.signal(signal.SIGALRM, _alarm)
            signal.alarm(int(to))
        out = ob.fn()
        if not isinstance(out, Outcome):
            out = Outcome(FAULT, detail=f"obligation returned {type(out).__name__}")
    except _Timeout:
        out = Outcome(UNDECIDED, backend="timeout", detail=f"wall-clock budget {to}s exhausted")
    except Exception:  # pylint: disable=broad-except
        out = Outcome(FAULT, detail=traceback.format_exc()[-3000:])
    finally:
        if to:
            signal.alarm(0)
    out.seconds = time.time() - t0
    return i, jsonable_deep(out.as_dict())


def run_obligations(obligs, jobs=None):
    global _OBLIGS
    _OBLIGS = obligs
    jobs = jobs or int(os.environ.get("VERIF_JOBS", "0")) or min(16, os.cpu_count() or 4)
    results = [None] * len(obligs)
    if jobs <= 1 or len(obligs) <= 1:
        for i in range(len(obligs)):
            _, results[i] = _run_one(i)
        return results
    # Persistent forked workers (forked before any obligation runs, so they inherit no solver timer threads), one obligation at
    # a time each; the parent watches the wall clock and KILLS a worker whose obligation overruns its budget -- a solver call that
    # ignores its own timeout can then neither hang the check nor starve the other obligations.  The killed obligation is
    # UNDECIDED (never a violation) and a fresh worker is forked in its place.
    ctx = mp.get_context("fork")
    grace = 20
    pending = sorted(range(len(obligs)), key=lambda i: -(obligs[i].timeout or 0))   # longest budgets first

    def _worker(task_r, res_w):
        try:
            while True:
                i = task_r.recv()
                if i is None:
                    break
                try:
                    res_w.send(_run_one(i))
                except Exception:  # pylint: disable=broad-except
                    res_w.send((i, jsonable_deep(Outcome(FAULT, detail=traceback.format_exc()[-3000:]).as_dict())))
        except (EOFError, OSError, KeyboardInterrupt):
            pass
        finally:
            os._exit(0)

    class _W:
        def __init__(self):
            self.task_r, self.task_w = ctx.Pipe(duplex=False)
            self.res_r, self.res_w = ctx.Pipe(duplex=False)
            self.p = ctx.Process(target=_worker, args=(self.task_r, self.res_w), daemon=True)
            self.p.start()
            self.task_r.close()
            self.res_w.close()
            self.cur, self.t0 = None, 0.0

        def give(self, i):
            self.cur, self.t0 = i, time.time()
            self.task_w.send(i)

        def close(self, kill=False):
            try:
                if kill:
                    self.p.kill()
                else:
                    self.task_w.send(None)
            except (OSError, ValueError):
                pass
            self.p.join(timeout=0.5 if not kill else 2)
            if self.p.is_alive():
                self.p.kill()
            for c in (self.task_w, self.res_r):
                try:
                    c.close()
                except OSError:
                    pass

    workers = [_W() for _ in range(min(jobs, len(obligs)))]
    n_done = 0
    while n_done < len(obligs):
        progressed = False
        for k, wk in enumerate(workers):
            if wk.cur is None:
                if pending:
                    wk.give(pending.pop(0))
                    progressed = True
                continue
            got = None
            try:
                if wk.res_r.poll(0):
                    got = wk.res_r.recv()
            except (EOFError, OSError):
                got = (wk.cur, jsonable_deep(Outcome(FAULT, detail="obligation process died without a result (killed / out of memory?)").as_dict()))
                wk.close(kill=True)
                workers[k] = _W()
            if got is None and not wk.p.is_alive():
                got = (wk.cur, jsonable_deep(Outcome(FAULT, detail=f"obligation process exited with code {wk.p.exitcode} and no result").as_dict()))
                wk.close(kill=True)
                workers[k] = _W()
            to = (obligs[wk.cur].timeout or DEFAULT_TIMEOUT) if wk.cur is not None else None
            if got is None and to and time.time() - wk.t0 > to + grace:
                d = Outcome(UNDECIDED, backend="timeout", detail=f"wall-clock budget {to}s exhausted (process killed: the solver did not return)").as_dict()
                d["seconds"] = round(time.time() - wk.t0, 2)
                got = (wk.cur, jsonable_deep(d))
                wk.close(kill=True)
                workers[k] = _W()
            if got is not None:
                results[got[0]] = got[1]
                n_done += 1
                progressed = True
                if workers[k] is wk:
                    wk.cur = None
        if not progressed:
            time.sleep(0.005)
    for wk in workers:
        wk.close()
    return results


# ------------------------------------------------------------------------------------------------
# known findings


def load_known_findings():
    p = os.path.join(VERIF, "known_findings.json")
    if not os.path.exists(p):
        return []
    return json.load(open(p)).get("findings", [])


def safe_name(s):
    return re.sub(r"[^A-Za-z0-9_.#-]+", "_", s)[:150]


def jsonable_deep(x):
    """plain-data copy (results cross a process boundary and end up in JSON files)"""
    if isinstance(x, (str, int, float, bool)) or x is None:
        return x
    if isinstance(x, dict):
        return {str(k): jsonable_deep(v) for k, v in x.items()}
    if isinstance(x, (list, tuple, set, frozenset)):
        return [jsonable_deep(v) for v in x]
    try:
        import numpy as _np
        if isinstance(x, _np.generic):
            return x.item()
    except Exception:  # pylint: disable=broad-except
        pass
    return repr(x)


def jsonable(x):
    try:
        json.dumps(x)
        return x
    except Exception:  # pylint: disable=broad-except
        if isinstance(x, dict):
            return {str(k): jsonable(v) for k, v in x.items()}
        if isinstance(x, (list, tuple, set, frozenset)):
            return [jsonable(v) for v in x]
        return repr(x)


# ------------------------------------------------------------------------------------------------
# finish: verdicts -> evidence, replay files, stdout lines, exit code


def finish(plan: Plan, results, tier, seed, t_start, checker_cmd):
    pid = plan.pid
    known = [f for f in load_known_findings() if f.get("property") == pid]
    open_by_ob = {f["obligation"]: f for f in known if f.get("status") == "open"}
    rep_dir = os.path.join(VERIF, "replays", pid)
    violations, undecided, faults, known_hit = [], [], [], []
    n_proof = n_disch = n_bounded = n_sizeb = 0
    by_backend: dict = {}
    solver_time = 0.0
    finding_instances = []
    samples = []
    for ob, r in zip(plan.obligations, results):
        solver_time += r["seconds"]
        st = r["status"]
        if ob.finding:
            finding_instances.append(dict(obligation=ob.name, finding=ob.finding, status=st))
        if st == DISCHARGED:
            by_backend[r["backend"]] = by_backend.get(r["backend"], 0) + 1
        sub = max(1, int((r.get("extra") or {}).get("sub_obligations") or 1))
        if ob.bounded or (r.get("extra") or {}).get("bounded"):
            n_bounded += 1
        elif not ob.finding:
            n_proof += sub
            if ob.size_bounded:
                n_sizeb += sub
            if st == DISCHARGED:
                n_disch += sub
        if st == REFUTED:
            rp = r.get("replay") or {}
            confirmed = rp.get("confirmed")
            if confirmed is False:
                # counter-model does not reproduce on the real code: engine or contract fault, never a violation
                faults.append((ob, r, "spurious counter-model (does not reproduce on the real code)"))
                continue
            os.makedirs(rep_dir, exist_ok=True)
            path = os.path.join(rep_dir, safe_name(ob.name) + ".json")
            with open(path, "w") as fh:
                json.dump(jsonable(dict(property=pid, obligation=ob.name, kind=ob.kind,
                                        function=list(ob.func) if ob.func else None,
                                        function_sha=source_hash(*ob.func) if ob.func else None,
                                        witness=r.get("witness"), replay=rp, backend=r["backend"],
                                        solver_output=r["detail"], tier=tier)), fh, indent=1)
            f = open_by_ob.get(ob.name)
            if f is not None and (ob.finding == f.get("id")):
                known_hit.append((f, ob, r))
            else:
                violations.append((ob, r, path, confirmed))
        elif st == UNDECIDED:
            if not ob.finding:
                undecided.append((ob, r))
        elif st == FAULT:
            faults.append((ob, r, r["detail"]))
        if ob.sample and len(samples) < 6 and st == DISCHARGED:
            samples.append(f"{ob.name} :: {ob.sample}"[:600])

    if not samples:
        samples = [ob.name for ob in plan.obligations[:5]]

    # An obligation that was DISCHARGED on the pinned tree, whose source file has changed since, and that the verifier can no
    # longer discharge (after the retry with a larger budget) while no stand-in vouches for it: reported as a violation without a
    # failing input (the replay file names the obligation and carries the verifier's output).  With the source file unchanged the
    # same outcome is a solver-budget problem and stays "undecided".
    base = load_baseline(pid)
    if os.environ.get("VERIF_RECORD_BASELINE") == "1" and os.path.realpath(REPO) == "/repo":
        os.makedirs(os.path.join(VERIF, "baseline"), exist_ok=True)
        rec = {ob.name: file_hash(ob.func[0]) for ob, r in zip(plan.obligations, results)
               if r["status"] == DISCHARGED and ob.func and not ob.finding}
        with open(os.path.join(VERIF, "baseline", f"{pid}.json"), "w") as fh:
            json.dump(rec, fh, indent=0, sort_keys=True)
    still = []
    for ob, r in undecided:
        passed_standin = (r.get("extra") or {}).get("standin") == "passed"
        if ob.func and ob.name in base and not passed_standin and base[ob.name] != file_hash(ob.func[0]):
            os.makedirs(rep_dir, exist_ok=True)
            path = os.path.join(rep_dir, safe_name(ob.name) + ".json")
            with open(path, "w") as fh:
                json.dump(jsonable(dict(property=pid, obligation=ob.name, kind=ob.kind, function=list(ob.func),
                                        function_sha=source_hash(*ob.func), file_sha=file_hash(ob.func[0]), baseline_file_sha=base[ob.name],
                                        witness=None, backend=r["backend"], solver_output=r["detail"], tier=tier,
                                        replay=dict(confirmed=None, note="obligation was discharged on the pinned tree; the source file "
                                                    "changed and the verifier no longer discharges it; no failing input was found"))),
                          fh, indent=1)
            violations.append((ob, r, path, None))
        else:
            still.append((ob, r))
    undecided = still

    level = plan.level
    coverage = dict(
        obligations=n_proof, discharged=n_disch,
        checker_cmd=checker_cmd,
        trusted_base=plan.trusted_base,
        obligations_by_backend=by_backend,
        solver_time_s=round(solver_time, 2),
        functions_under_contract=[dict(file=f, qualname=q, sha256_16=source_hash(f, q)) for f, q in plan.functions],
        assumed_contracts=plan.assumed_contracts,
        unverified_surroundings=plan.unverified,
        size_bounds=plan.size_bounds,
        size_bounded_obligations=n_sizeb,
        bounded_standins=n_bounded,
        extraction_drops=plan.dropped,
        known_finding_instances=finding_instances,
        known_findings_reproduced=[f["id"] for f, _, _ in known_hit],
        undecided=[ob.name for ob, _ in undecided],
        samples=samples,
        explanation=plan.explanation,
        evaluations=len(plan.obligations),
        distinct_nontrivial=len({ob.name for ob in plan.obligations}),
        rule="one evaluation = one named obligation generated from /repo's current source; distinct = distinct obligation names",
    )
    coverage["slowest_obligations"] = [f"{ob.name}: {r['seconds']}s" for ob, r in
                                       sorted(zip(plan.obligations, results), key=lambda t: -t[1]["seconds"])[:5]]
    coverage.update(plan.notes)
    if level == "proof" and (violations or faults) and not undecided:
        level = "other"
        coverage["explanation"] = (plan.explanation + " | obligations refuted or faulted on this run; not a proof").strip()
    if undecided and level == "proof":
        level = "other"
        coverage["proof_lost"] = [ob.name for ob, _ in undecided]
        coverage["explanation"] = (plan.explanation + " | some obligations undecided on this run; not a proof").strip()
    ev = dict(property_id=pid, tier=tier, seed=seed, level=level, coverage=coverage,
              assumptions=plan.assumptions, wall_s=round(time.time() - t_start, 2), violations=len(violations))
    # runs against a scratch copy of the repository (mutation tests) must never overwrite the committed evidence
    evdir = "evidence" if os.path.realpath(REPO) == "/repo" else "evidence_scratch"
    os.makedirs(os.path.join(VERIF, evdir), exist_ok=True)
    evp = os.path.join(VERIF, evdir, f"{pid}.json")
    with open(evp, "w") as fh:
        json.dump(jsonable(ev), fh, indent=1)
    try:
        import jsonschema
        schema = json.load(open("/root/.vp/EVIDENCE.schema.json")) if os.path.exists("/root/.vp/EVIDENCE.schema.json") \
            else json.load(open(os.path.join(VERIF, "vf", "EVIDENCE.schema.json")))
        jsonschema.validate(json.load(open(evp)), schema)
    except Exception as e:  # pylint: disable=broad-except
        print(f"evidence schema validation failed: {e}", file=sys.stderr)
        return 3

    for f, ob, r in known_hit:
        print(f"KNOWN-FINDING: property={pid} {f['id']} {f.get('what', '')} [obligation {ob.name}]")
    print(f"[{pid}] tier={tier} obligations={n_proof} discharged={n_disch} bounded_standins={n_bounded} "
          f"finding_instances={len(finding_instances)} undecided={len(undecided)} faults={len(faults)} "
          f"violations={len(violations)} wall={ev['wall_s']}s")
    for ob, r, path, confirmed in violations:
        tail = "" if confirmed else " no-failing-input-found"
        print(f"  refuted obligation {ob.name}: {str(r.get('witness'))[:300]}")
        print(f"VIOLATION property={pid} replay={path}{tail}")
    if violations:
        return 1
    if faults:
        for ob, r, why in faults:
            print(f"  CHECKER FAULT at {ob.name}: {str(why)[-1500:]}", file=sys.stderr)
        return 3
    if len(plan.obligations) == 0 or n_proof == 0:
        print("  CHECKER FAULT: zero obligations generated", file=sys.stderr)
        return 3
    if undecided:
        for ob, r in undecided:
            print(f"  UNDECIDED {ob.name}: {r['backend']} {r['detail'][:300]}", file=sys.stderr)
        if all((r.get("extra") or {}).get("standin") == "passed" for _, r in undecided):
            # DESIGN 2.6: the function left the verifier's reach, its bounded stand-in found no counterexample:
            # no alarm, but the evidence is downgraded (level other, proof_lost lists the obligations)
            print(f"  [{pid}] proof lost for {len(undecided)} obligation(s); bounded stand-in found no counterexample")
            return 0
        return 2
    return 0
