"""./check <id> [--tier quick|thorough] [--replay file] [--list] [--only substr]"""
import argparse
import importlib
import json
import os
import sys
import time
import traceback

from . import common


def main(argv=None):
    ap = argparse.ArgumentParser()
    ap.add_argument("pid")
    ap.add_argument("--tier", default=os.environ.get("VERIF_TIER", "quick"), choices=["quick", "thorough"])
    ap.add_argument("--replay", default=None)
    ap.add_argument("--list", action="store_true")
    ap.add_argument("--only", default=None, help="run only obligations whose name contains this (development aid; "
                                                 "evidence is then marked partial)")
    ap.add_argument("--jobs", type=int, default=None)
    a = ap.parse_args(argv)
    seed = int(os.environ.get("VERIF_SEED", "0") or 0)
    t0 = time.time()
    try:
        mod = importlib.import_module(f"contracts.{a.pid}")
        plan = mod.build(a.tier, seed)
    except Exception:  # pylint: disable=broad-except
        traceback.print_exc()
        print(f"CHECKER FAULT: building obligations for {a.pid} failed", file=sys.stderr)
        return 3
    if a.list:
        for ob in plan.obligations:
            print(ob.kind, ob.name, "[finding %s]" % ob.finding if ob.finding else "")
        print(len(plan.obligations), "obligations")
        return 0
    if a.replay:
        rec = json.load(open(a.replay))
        for ob in plan.obligations:
            if ob.name == rec["obligation"]:
                if ob.replay is None:
                    print(f"obligation {ob.name} has no replayable input (no-failing-input-found); re-running it")
                    out = ob.fn()
                    print(out.status, out.detail[:500])
                    return 1 if out.status == common.REFUTED else 0
                rp = ob.replay(rec.get("witness"))
                print(json.dumps(common.jsonable(rp), indent=1)[:3000])
                return 1 if rp.get("confirmed") else 0
        print("obligation named in replay file no longer exists:", rec["obligation"], file=sys.stderr)
        return 3
    if a.only:
        plan.obligations = [o for o in plan.obligations if a.only in o.name]
        plan.notes["partial_run_only"] = a.only
    results = common.run_obligations(plan.obligations, a.jobs)
    cmd = f"./check {a.pid} --tier {a.tier}"
    return common.finish(plan, results, a.tier, seed, t0, cmd)


if __name__ == "__main__":
    sys.exit(main())
